package props

import (
	"fmt"
	"go/token"
	"go/types"
	"sort"
	"strconv"
	"strings"

	"ndndcheck/core"

	"golang.org/x/tools/go/ssa"
)

// C15 — A published object is retrieved byte-for-byte, newest version, completing once.
func C15(c *core.Ctx) {
	c.Explain = "Narrow claim. Byte identity, ordering under reordering/loss and segment-size boundaries are behavioural and NOT decided. Decided structural necessary conditions: (R15.1 typestate) every store complete=true on a ConsumeState is reachable only on the edge asserting !complete of that state and is followed on all exits by an invocation of the state's callback; handleData touches the state and calls the callback only when not complete — together: completion is reported at most once per store site and never after completion; (R15.2 siblings) in every ndn.Store implementation the prefix Get selects by a *running* maximum: the value the candidate version is compared against is a loop-carried variable that is assigned the candidate on the selecting branch; (R15.3) the segment index taken from the Data name is bounded below and above by the segment count before it indexes the content buffer, and the segment count is bounded by maxObjectSeg and > 0 before the buffer is allocated."
	c.RuleText = "instances: stores of complete=true (discovered by scanning std/object), handleData effects, comparison sites of the version selection in each Store implementation, the content index and allocation sites. Non-trivial = has a branch edge, phi edge or path to decide."
	p := c.P
	pkg := core.ModPath + "/std/object"

	// ---- R15.1
	isCompleteOf := func(v ssa.Value, base ssa.Value) bool { return isFieldLoad(v, base, "complete") }
	nStores := 0
	for _, fn := range p.FuncsIn(pkg) {
		core.Instrs(fn, func(in ssa.Instruction) {
			fa, v, ok := storeToField(in, "ConsumeState", "complete")
			if !ok {
				return
			}
			b, isC := core.ConstBool(v)
			if !isC || !b {
				if _, fresh := core.Strip(fa.X).(*ssa.Alloc); fresh {
					return // constructor literal
				}
				if isC && !b {
					c.Viol("R15.1", "complete-reset:"+core.FuncName(fn), c.Pos(in), "a ConsumeState is set back to not-complete: completion can be reported again")
				}
				return
			}
			nStores++
			c.Funcs[core.FuncName(fn)] = true
			base := fa.X
			notDone := &core.Atom{Name: "state.complete", Match: func(cond ssa.Value) (int, int) {
				if isCompleteOf(cond, base) {
					return 1, -1
				}
				return 0, 0
			}}
			g := core.GateDeep(fn, []ssa.Instruction{in}, neg(notDone))
			c.Decide(g.OK && g.PassEdges > 0, "R15.1", "complete-once:"+core.FuncName(fn), c.Pos(in), "complete=true is stored only on the edge asserting !complete", core.FuncName(fn)+" can mark a ConsumeState complete although it already is: the callback reports completion (or an error) a second time")
			fr := core.MustFollowDeep(fn, core.After(in), func(x ssa.Instruction) bool {
				cl, ok := x.(*ssa.Call)
				if !ok || cl.Call.IsInvoke() || cl.Call.StaticCallee() != nil {
					return false
				}
				b2, ok := core.FieldOf(cl.Call.Value, "callback")
				return ok && core.Same(b2, base)
			}, nil)
			c.Decide(fr.OK, "R15.1", "complete-then-callback:"+core.FuncName(fn), c.Pos(in), "the callback is invoked on every path after complete=true", core.FuncName(fn)+" can mark a ConsumeState complete without ever invoking its callback: the consumer never learns the outcome")
		})
	}
	// an error ends the fetch: wherever a fatal error is recorded in a ConsumeState, the state
	// is marked complete in the same function — the data and retry paths test the field
	// `complete`, so a state that failed but is not complete goes on receiving segments and
	// reports an outcome a second time
	nErr := 0
	for _, fn := range p.FuncsIn(pkg) {
		if strings.HasSuffix(p.File(fn.Pos()), "_test.go") {
			continue
		}
		core.Instrs(fn, func(in ssa.Instruction) {
			fa, v, ok := storeToField(in, "ConsumeState", "err")
			if !ok || core.IsNilConst(v) {
				return
			}
			if _, fresh := core.Strip(fa.X).(*ssa.Alloc); fresh {
				return
			}
			nErr++
			base := fa.X
			marks := func(x ssa.Instruction) bool {
				fa2, v2, ok2 := storeToField(x, "ConsumeState", "complete")
				if !ok2 {
					return false
				}
				b, isC := core.ConstBool(v2)
				return isC && b && (fa2.X == base || core.Same(fa2.X, base))
			}
			okMark := core.MustFollowDeep(fn, core.After(in), marks, nil).OK || core.PrecedesDeep(fn, in, marks)
			c.Decide(okMark, "R15.1", "error-ends-the-fetch:"+core.FuncName(fn), c.Pos(in), "where the error is recorded the state is marked complete", core.FuncName(fn)+" records a fatal error in a ConsumeState without marking it complete: the paths that handle arriving segments and retries test `complete`, so the failed fetch stays live and its callback reports an outcome a second time")
		})
	}
	c.Floor("R15.1", "stores of a fatal error into a ConsumeState", nErr, 1)
	c.Floor("R15.1", "complete=true stores", nStores, 1)
	if hd := c.Fn("R15.1", "std/object", "rrSegFetcher", "handleData"); hd != nil {
		state := ssa.Value(hd.Params[2])
		done := &core.Atom{Name: "state.complete", Match: func(cond ssa.Value) (int, int) {
			if isCompleteOf(cond, state) {
				return 1, -1
			}
			return 0, 0
		}}
		var eff []ssa.Instruction
		core.Instrs(hd, func(in ssa.Instruction) {
			if st, ok := in.(*ssa.Store); ok {
				if root, path := core.FieldPath(st.Addr); root == state && len(path) > 0 {
					eff = append(eff, in)
				}
				if ia, ok := st.Addr.(*ssa.IndexAddr); ok {
					if root, _ := core.FieldPath(ia.X); root == state {
						eff = append(eff, in)
					}
				}
			}
			if cl, ok := in.(*ssa.Call); ok {
				if b, ok := core.FieldOf(cl.Call.Value, "callback"); ok && b == state {
					eff = append(eff, in)
				}
				if _, ok := core.IsCall(in, core.CalleeID{Pkg: "std/object", Recv: "ConsumeState", Name: "finalizeError"}); ok {
					eff = append(eff, in)
				}
			}
		})
		g := core.GateDeep(hd, eff, neg(done))
		c.Decide(len(eff) >= 4 && g.OK && g.PassEdges > 0, "R15.1", "no-effect-after-completion", p.Pos(hd.Pos()), fmt.Sprintf("%d state updates / callback invocations are all behind the !complete gate", len(eff)), "handleData can update a completed ConsumeState or invoke its callback again (late or duplicate segment after completion)")
	}

	// ---- R15.2 newest-version selection in every Store implementation
	storeI := p.Named("std/ndn", "Store")
	nSel := 0
	if storeI == nil {
		c.Und("R15.2", "anchor:ndn.Store", "-", "interface not found")
	} else {
		for _, t := range p.Implementations(storeI) {
			if t.Obj().Pkg().Path() != pkg {
				continue
			}
			get := p.MethodOf(t, "Get")
			if get == nil {
				continue
			}
			// functions reachable from Get inside the package (helpers, closures)
			seen := map[*ssa.Function]bool{}
			var fns []*ssa.Function
			var walk func(f *ssa.Function, d int)
			walk = func(f *ssa.Function, d int) {
				if f == nil || f.Blocks == nil || seen[f] || d > 3 {
					return
				}
				seen[f] = true
				fns = append(fns, f)
				for _, a := range f.AnonFuncs {
					walk(a, d+1)
				}
				core.Instrs(f, func(in ssa.Instruction) {
					if ci, ok := in.(ssa.CallInstruction); ok {
						if sc := ci.Common().StaticCallee(); sc != nil && sc.Pkg != nil && sc.Pkg.Pkg.Path() == pkg {
							walk(sc, d+1)
						}
					}
				})
			}
			walk(get, 0)
			found := false
			for _, fn := range fns {
				core.Instrs(fn, func(in ssa.Instruction) {
					b, ok := in.(*ssa.BinOp)
					if !ok || (b.Op != token.GTR && b.Op != token.LSS && b.Op != token.GEQ && b.Op != token.LEQ) || !core.InLoop(b.Block()) {
						return
					}
					if bt, ok := b.X.Type().Underlying().(*types.Basic); !ok || bt.Kind() != types.Uint64 {
						return
					}
					// candidate > best  (or best < candidate)
					cand, best := b.X, b.Y
					if b.Op == token.LSS || b.Op == token.LEQ {
						cand, best = best, cand
					}
					// must look like a version comparison: used by an If
					usedByIf := false
					for _, r := range core.Refs(b) {
						if _, ok := r.(*ssa.If); ok {
							usedByIf = true
						}
					}
					if !usedByIf {
						return
					}
					found = true
					nSel++
					c.Funcs[core.FuncName(fn)] = true
					key := "running-maximum:" + t.Obj().Name() + ":" + core.FuncName(fn)
					// 'best' must be loop-carried: a phi (or a field of a phi) with an incoming
					// edge that is the candidate (or the object the candidate is a field of)
					root := func(v ssa.Value) ssa.Value {
						v = core.StripConv(v)
						if u, ok := v.(*ssa.UnOp); ok && u.Op == token.MUL {
							if fa, ok := u.X.(*ssa.FieldAddr); ok {
								return core.Strip(fa.X)
							}
						}
						return v
					}
					br, cr := root(best), root(cand)
					phi, isPhi := br.(*ssa.Phi)
					ok2 := false
					if isPhi {
						seenPhi := map[*ssa.Phi]bool{}
						var through func(ph *ssa.Phi)
						through = func(ph *ssa.Phi) {
							if seenPhi[ph] {
								return
							}
							seenPhi[ph] = true
							for _, e := range ph.Edges {
								if core.StripConv(e) == cr {
									ok2 = true
								}
								if p2, ok := core.Strip(e).(*ssa.Phi); ok {
									through(p2)
								}
							}
						}
						through(phi)
					}
					if al, isAl := br.(*ssa.Alloc); isAl { // captured / address-taken variable
						for _, r := range core.Refs(al) {
							if st, ok := r.(*ssa.Store); ok && core.Strip(st.Val) == cr && core.InLoop(st.Block()) {
								ok2 = true
							}
						}
					}
					// the first stored candidate is selected whatever its version (0 is a
					// valid version: "nothing found yet" must not be represented by a version
					// number a real packet can carry): the selecting successor of the
					// comparison is reachable inside the iteration without crossing the
					// comparison's own selecting edge
					if iff, isIf := b.Block().Instrs[len(b.Block().Instrs)-1].(*ssa.If); isIf && iff.Cond == ssa.Value(b) {
						selIdx := 0
						if b.Op == token.LEQ || (b.Op == token.LSS && false) {
							selIdx = 1
						}
						if (b.Op == token.GEQ || b.Op == token.LEQ) && false {
							selIdx = 1
						}
						// cand > best selects on true; best < cand selects on true as well
						sel := b.Block().Succs[selIdx]
						alt := false
						if h := loopHeader(b.Block()); h != nil {
							cut := map[core.Edge]bool{{From: b.Block(), To: sel}: true}
							for _, s0 := range h.Succs {
								if core.ReachAvoiding(fn, s0, map[*ssa.BasicBlock]bool{sel: true}, cut) != nil {
									// must stay inside the iteration: not through the header again
									path := core.ReachAvoiding(fn, s0, map[*ssa.BasicBlock]bool{sel: true}, cut)
									inIter := true
									for i, pb := range path {
										if i > 0 && pb == h {
											inIter = false
										}
									}
									if inIter {
										alt = true
									}
								}
							}
						}
						c.Decide(alt, "R15.2", "first-candidate-selected:"+t.Obj().Name()+":"+core.FuncName(fn), c.Pos(b), "a stored packet is selected when nothing was found yet, whatever its version", t.Obj().Name()+".Get (prefix lookup) selects a candidate only when its version is strictly greater than the initial value of the running maximum: a packet stored under that version (0, the documented version of immutable objects) is never found, so the object cannot be retrieved by its name")
					}
					c.Decide(ok2, "R15.2", key, c.Pos(b), "the version is compared with a running maximum that is updated on selection", t.Obj().Name()+".Get (prefix lookup) compares each candidate version with a value that is never updated inside the scan ("+describeValue(best)+"): it returns the last key with a version above that constant, not the newest version")
				})
			}
			if !found {
				c.Viol("R15.2", "running-maximum:"+t.Obj().Name(), p.Pos(get.Pos()), t.Obj().Name()+".Get has no version comparison in its prefix scan: it cannot select the newest version")
			}
		}
	}
	c.Floor("R15.2", "version-selection comparison sites", nSel, 2)

	// ---- R15.4 memory store: insert, find and remove derive the child key the same way
	{
		keyFns := map[string]map[string]bool{}
		for _, m := range []string{"find", "insert", "remove"} {
			fn := c.Fn("R15.4", "std/object", "memoryStoreNode", m)
			if fn == nil {
				continue
			}
			keyFns[m] = map[string]bool{}
			record := func(key ssa.Value) {
				if cl, ok := core.Strip(key).(*ssa.Call); ok {
					if id, ok := core.Callee(&cl.Call); ok {
						keyFns[m][id.String()] = true
						return
					}
				}
				if _, isPhi := core.Strip(key).(*ssa.Phi); isPhi {
					return
				}
				if _, isExt := core.Strip(key).(*ssa.Extract); isExt {
					return // range key
				}
				keyFns[m]["<other>"] = true
			}
			core.Instrs(fn, func(in ssa.Instruction) {
				switch x := in.(type) {
				case *ssa.Lookup:
					if _, ok := core.FieldOf(x.X, "children"); ok {
						record(x.Index)
					}
				case *ssa.MapUpdate:
					if _, ok := core.FieldOf(x.Map, "children"); ok {
						record(x.Key)
					}
				case *ssa.Call:
					if cl, ok := isBuiltinCall(in, "delete"); ok {
						if _, ok := core.FieldOf(cl.Call.Args[0], "children"); ok {
							record(cl.Call.Args[1])
						}
					}
				}
			})
		}
		all := map[string]bool{}
		desc := ""
		for m, ks := range keyFns {
			for k := range ks {
				all[k] = true
			}
			desc += fmt.Sprintf(" %s:%v", m, ks)
		}
		oneToOne := true
		for k := range all {
			if i := strings.LastIndexByte(k, '.'); i < 0 || !injectiveComponentString[k[i+1:]] {
				oneToOne = false
			}
		}
		c.Decide(oneToOne, "R15.4", "memory-store-key-one-to-one", "-", "the child key is a one-to-one string form of the component:"+desc, "the in-memory store keys children by a string form of the component that is not one-to-one ("+desc+"; Component.String prints the numeric conventions by value, so 0x05 and 0x00 0x05 are one key): a packet stored under one name is served for another")
		c.Decide(len(all) == 1 && len(keyFns) == 3, "R15.4", "memory-store-key-agreement", "-", "find, insert and remove all key children by the same function:"+desc, "the in-memory store's find/insert/remove derive the child key differently ("+desc+"): names whose two string forms differ are inserted under one key and removed (or looked up) under another, so removed packets are still served")
	}
	// ---- R15.5 Content(): the range that is returned is the range that is freed and skipped
	if ct := c.Fn("R15.5", "std/object", "ConsumeState", "Content"); ct != nil {
		a := ssa.Value(ct.Params[0])
		slot := func(v ssa.Value) (int64, bool) { // v = a.wnd[k]
			u, ok := core.StripConv(v).(*ssa.UnOp)
			if !ok || u.Op != token.MUL {
				return 0, false
			}
			ia, ok := u.X.(*ssa.IndexAddr)
			if !ok {
				return 0, false
			}
			if b, ok := ia.X.(*ssa.FieldAddr); !ok || core.Strip(b.X) != a {
				return 0, false
			} else if _, f := core.FieldAddrName(b); f != "wnd" {
				return 0, false
			}
			return core.ConstInt(ia.Index)
		}
		var lo, hi int64 = -1, -1
		uses := map[string]int64{}
		core.Instrs(ct, func(in ssa.Instruction) {
			switch x := in.(type) {
			case *ssa.Slice:
				if _, ok := core.FieldOf(x.X, "content"); ok && x.Low != nil && x.High != nil {
					if k, ok := slot(x.Low); ok {
						lo = k
					}
					if k, ok := slot(x.High); ok {
						hi = k
					}
				}
			case *ssa.BinOp:
				// i < wnd[k], written either way round
				if x.Op == token.LSS {
					if k, ok := slot(x.Y); ok {
						uses["free-loop bound"] = k
					}
				}
				if x.Op == token.GTR {
					if k, ok := slot(x.X); ok {
						uses["free-loop bound"] = k
					}
				}
			case *ssa.Store:
				if ia, ok := x.Addr.(*ssa.IndexAddr); ok {
					if b, ok := ia.X.(*ssa.FieldAddr); ok && core.Strip(b.X) == a {
						if _, f := core.FieldAddrName(b); f == "wnd" {
							if k, ok := slot(x.Val); ok {
								uses["new start"] = k
							}
						}
					}
				}
			}
		})
		okAgree := lo >= 0 && hi >= 0 && len(uses) == 2
		for _, k := range uses {
			if k != hi {
				okAgree = false
			}
		}
		c.Decide(okAgree, "R15.5", "content-range-agreement", p.Pos(ct.Pos()), fmt.Sprintf("returned range wnd[%d]:wnd[%d]; freed and skipped up to the same slot", lo, hi), fmt.Sprintf("ConsumeState.Content returns content[wnd[%d]:wnd[%d]] but frees / advances with %v: segments outside the returned range are discarded (or delivered twice)", lo, hi, uses))
	}
	// ---- R15.6 bolt store: one byte order for the version header on write and read
	{
		orders := map[string][]string{}
		for _, fn := range p.FuncsIn(pkg) {
			root := fn
			for root.Parent() != nil {
				root = root.Parent()
			}
			if core.FuncID(root).Recv != "BoltStore" {
				continue
			}
			core.Instrs(fn, func(in ssa.Instruction) {
				ci, ok := in.(ssa.CallInstruction)
				if !ok {
					return
				}
				id, ok := core.Callee(ci.Common())
				if !ok || id.Pkg != "encoding/binary" {
					return
				}
				orders[id.Recv] = append(orders[id.Recv], core.FuncName(fn)+"."+id.Name)
			})
		}
		c.Decide(len(orders) == 1, "R15.6", "bolt-version-byte-order-agreement", "-", fmt.Sprintf("all version-header accesses of the bolt store use one byte order: %v", orders), fmt.Sprintf("the bolt store writes and reads its version header with different byte orders %v: the newest-version selection compares garbage", orders))
	}

	// ---- R15.3 segment index and allocation bounds
	// ---- R15.6 the FinalBlockId the producer announces is not "size / segment size": that
	// quotient is the index of the last segment only when the size is NOT a multiple of the
	// segment size; for an exact multiple it names a segment that is never stored and the
	// consumer waits for it forever. (Only this known-wrong form is reported; that another
	// expression equals ceil(size/seg)-1 is arithmetic and not decided.)
	if pr := c.Fn("R15.6", "std/object", "Client", "Produce"); pr != nil {
		nFB := 0
		core.InstrsDeep(pr, func(in ssa.Instruction) {
			fa, v, ok := storeToField(in, "DataConfig", "FinalBlockID")
			_ = fa
			if !ok {
				return
			}
			// &finalBlockId where finalBlockId = NewSegmentComponent(x)
			var seg ssa.Value
			if al, isAl := core.Strip(v).(*ssa.Alloc); isAl {
				nSt := 0
				for _, r := range core.Refs(al) {
					st, isSt := r.(*ssa.Store)
					if !isSt || st.Addr != ssa.Value(al) {
						continue
					}
					nSt++
					if cl, isCall := core.Strip(st.Val).(*ssa.Call); isCall {
						if id, okID := core.Callee(&cl.Call); okID && id.Name == "NewSegmentComponent" && len(cl.Call.Args) == 1 {
							seg = cl.Call.Args[0]
						}
					}
				}
				if nSt != 1 {
					seg = nil
				}
			}
			if seg == nil {
				return
			}
			nFB++
			bad := false
			if q, isQ := core.StripConv(seg).(*ssa.BinOp); isQ && q.Op == token.QUO {
				if _, adj := core.StripConv(q.X).(*ssa.BinOp); !adj {
					bad = true // bare size / segment size
				}
			}
			c.Decide(!bad, "R15.6", "final-block-id-not-bare-quotient", c.Pos(in), "the announced last segment is not computed as size / segmentSize", "Produce announces FinalBlockId = size / segmentSize: for an object whose size is an exact multiple of the segment size this is one more than the last segment stored, and a consumer never completes")
		})
		c.Floor("R15.6", "FinalBlockID stores in Produce", nFB, 1)
	}

	c15Aliasing(c, pkg)
	c15Scan(c)
	c15Round4b(c, pkg)

	if hd := c.Fn("R15.3", "std/object", "rrSegFetcher", "handleData"); hd != nil {
		state := ssa.Value(hd.Params[2])
		isCnt := func(v ssa.Value) bool { return isFieldLoad(core.StripConv(v), state, "segCnt") }
		n := 0
		for _, s := range core.IndexSinks(hd) {
			if root, path := core.FieldPath(s.Container); !(root == state && len(path) == 1 && path[0] == "content") {
				continue
			}
			idx := core.StripConv(s.Index)
			if _, isLoad := idx.(*ssa.UnOp); isLoad {
				continue // state.content[state.wnd[1]]: bounded by the loop condition, checked below
			}
			n++
			sameIdx := func(v ssa.Value) bool { return core.StripConv(v) == idx || core.Strip(v) == core.Strip(s.Index) }
			tooBig := &core.Atom{Name: "seg>=segCnt", Match: func(cond ssa.Value) (int, int) {
				op, x, y, ok := core.Cmp(cond)
				if !ok {
					return 0, 0
				}
				if isCnt(x) && sameIdx(y) {
					x, y = y, x
					op = core.Swap(op)
				}
				if !sameIdx(x) || !isCnt(y) {
					return 0, 0
				}
				switch op {
				case token.GEQ:
					return 1, -1
				case token.LSS:
					return -1, 1
				}
				return 0, 0
			}}
			negIdx := &core.Atom{Name: "seg<0", Match: func(cond ssa.Value) (int, int) {
				op, x, y, ok := core.Cmp(cond)
				if !ok || !sameIdx(x) {
					return 0, 0
				}
				k, isC := core.ConstInt(y)
				if !isC || k != 0 {
					return 0, 0
				}
				switch op {
				case token.LSS:
					return 1, -1
				case token.GEQ:
					return -1, 1
				}
				return 0, 0
			}}
			g1 := core.GateDeep(hd, []ssa.Instruction{s.Instr}, neg(tooBig))
			g2 := core.GateDeep(hd, []ssa.Instruction{s.Instr}, neg(negIdx))
			c.Decide(g1.OK && g1.PassEdges > 0 && g2.OK && g2.PassEdges > 0, "R15.3", fmt.Sprintf("segment-index-bounded#%d", n), c.Pos(s.Instr), "content[seg] only when 0 ≤ seg < segCnt", "the segment number taken from a Data name indexes the content buffer without 0 ≤ seg < segCnt having been established (panic on a crafted or stale segment)")
		}
		c.Floor("R15.3", "content index sites with a name-derived index", n, 1)
		var makes []ssa.Instruction
		core.Instrs(hd, func(in ssa.Instruction) {
			if ms, ok := in.(*ssa.MakeSlice); ok && isCnt(ms.Len) {
				makes = append(makes, in)
			}
		})
		over := &core.Atom{Name: "segCnt>maxObjectSeg", Match: func(cond ssa.Value) (int, int) {
			op, x, y, ok := core.Cmp(cond)
			if !ok || !isCnt(x) {
				return 0, 0
			}
			if _, isC := core.ConstInt(y); !isC {
				return 0, 0
			}
			switch op {
			case token.GTR, token.GEQ:
				return 1, -1
			case token.LEQ, token.LSS:
				return -1, 1
			}
			return 0, 0
		}}
		g := core.GateDeep(hd, makes, neg(over))
		c.Decide(len(makes) > 0 && g.OK && g.PassEdges > 0, "R15.3", "segment-count-bounded-before-alloc", p.Pos(hd.Pos()), "the content buffer is allocated only when segCnt is within maxObjectSeg", "the content buffer is allocated from a FinalBlockId-derived count without an upper bound")
	}
}

// c15Aliasing — R15.7: a name that is built by appending to a slice the function does not
// own must not share its backing array with another name that is still in use.
// (i) two appends to the same base in one function, the first result used after the
// second append (the second overwrites the first's components when the base has spare
// capacity); (ii) an append whose base is a field of a long-lived object and whose result
// is handed to another goroutine (channel send, go statement, captured by a closure):
// the next call appends to the same array before the first result was consumed.
// A base is owned when it is fresh (make, literal, Clone, nil) or capacity-clipped
// (`x[:len(x):len(x)]`, slices.Clip).
func c15Aliasing(c *core.Ctx, pkg string) {
	p := c.P
	isName := func(t types.Type) bool {
		n, ok := t.(*types.Named)
		return ok && n.Obj().Name() == "Name" && n.Obj().Pkg() != nil && strings.HasSuffix(n.Obj().Pkg().Path(), "std/encoding")
	}
	owned := func(v ssa.Value) bool {
		v = core.Strip(v)
		switch x := v.(type) {
		case *ssa.Const:
			return true
		case *ssa.MakeSlice:
			return true
		case *ssa.Slice:
			if x.Max != nil && x.High != nil && (x.Max == x.High || core.Same(x.Max, x.High)) {
				return true
			}
			if _, isAl := core.Strip(x.X).(*ssa.Alloc); isAl { // slice literal
				return true
			}
		case *ssa.Call:
			if id, ok := core.Callee(&x.Call); ok && (id.Name == "Clone" || id.Name == "Clip") {
				return true
			}
		case *ssa.UnOp:
			// a package-level name that is only ever assigned slice literals (in the package
			// initialiser): a literal has no spare capacity, every append to it reallocates
			if g, isG := x.X.(*ssa.Global); isG && x.Op == token.MUL {
				lit, n := true, 0
				if g.Pkg != nil {
					for _, mem := range g.Pkg.Members {
						fn, isFn := mem.(*ssa.Function)
						if !isFn {
							continue
						}
						for _, f2 := range core.WithClosures(fn) {
							core.Instrs(f2, func(in ssa.Instruction) {
								if st, isSt := in.(*ssa.Store); isSt && st.Addr == ssa.Value(g) {
									n++
									sl, isSl := core.Strip(st.Val).(*ssa.Slice)
									if !isSl {
										lit = false
										return
									}
									if _, isAl := core.Strip(sl.X).(*ssa.Alloc); !isAl {
										lit = false
									}
								}
							})
						}
					}
				}
				return lit && n > 0
			}
		}
		return false
	}
	nApp, nAll := 0, 0
	for _, fn := range p.FuncsIn(pkg) {
		if ps := fn.Pos(); ps.IsValid() && strings.HasSuffix(p.Fset.Position(ps).Filename, "_test.go") {
			continue
		}
		var apps []*ssa.Call
		core.Instrs(fn, func(in ssa.Instruction) {
			if cl, ok := isBuiltinCall(in, "append"); ok && isName(cl.Type()) && len(cl.Call.Args) == 2 {
				apps = append(apps, cl)
			}
		})
		nAll += len(apps)
		for i, a := range apps {
			base := a.Call.Args[0]
			if owned(base) {
				c.Ok("R15.7", fmt.Sprintf("extended-name-owns-storage:%s#%d", core.FuncName(fn), i), c.Pos(a), "the base of the append is fresh or capacity-clipped: the new name has its own backing array")
				continue
			}
			nApp++
			c.Funcs[core.FuncName(fn)] = true
			key := fmt.Sprintf("%s#%d", core.FuncName(fn), i)
			// (i) a later append to the same base while this result is still used
			bad := ""
			for j, b2 := range apps {
				if j == i || !(b2.Call.Args[0] == base || core.Same(b2.Call.Args[0], base)) {
					continue
				}
				if !core.ReachableFrom(core.After(a), b2) {
					continue
				}
				for _, u := range core.Refs(a) {
					if u != ssa.Instruction(b2) && core.ReachableFrom(core.After(b2), u) {
						bad = fmt.Sprintf("the name built at %s is still used at %s after %s appended to the same base slice", c.Pos(a), c.Pos(u), c.Pos(b2))
					}
					// kept in a field: it is in use for as long as the object lives
					if st, isSt := u.(*ssa.Store); isSt && st.Val == ssa.Value(a) {
						if _, isFA := st.Addr.(*ssa.FieldAddr); isFA {
							bad = fmt.Sprintf("the name built at %s is kept in a field, and %s appends to the same base slice afterwards: with spare capacity in the base both names end in the component appended last", c.Pos(a), c.Pos(b2))
						}
					}
				}
			}
			// (ii) base is a field of a long-lived object and the result leaves the goroutine
			if bad == "" {
				if root, path := core.FieldPath(base); len(path) > 0 {
					if _, local := root.(*ssa.Alloc); !local {
						if how := escapesGoroutine(a, 2); how != "" {
							bad = fmt.Sprintf("the name built at %s by appending to the field %s is %s; the next call appends to the same backing array before that name was consumed", c.Pos(a), strings.Join(path, "."), how)
						}
					}
				}
			}
			// (iii) the base is a name the caller passed in: the append writes behind the
			// caller's slice, into spare capacity that can belong to a longer name of the
			// caller (the versioned name this one was cut from); the caller's name changes
			// under it. Unless every caller passes a name it owns.
			if bad == "" {
				if par, isPar := core.Strip(base).(*ssa.Parameter); isPar {
					ownedByCallers := false
					if callers := p.Callers(fn); len(callers) > 0 && !fn.Object().Exported() {
						ownedByCallers = true
						idx := -1
						for k, q := range fn.Params {
							if q == par {
								idx = k
							}
						}
						for _, ci := range callers {
							args := ci.Common().Args
							if ci.Common().IsInvoke() || idx < 0 || idx >= len(args) || !owned(args[idx]) {
								ownedByCallers = false
							}
						}
					}
					if !ownedByCallers {
						how := escapesGoroutine(a, 2)
						if how == "" {
							how = "used on"
						}
						bad = fmt.Sprintf("the name built at %s by appending to the parameter %s (a slice of the caller) is %s", c.Pos(a), par.Name(), how)
					}
				}
			}
			c.Decide(bad == "", "R15.7", "extended-name-owns-storage:"+key, c.Pos(a), "no second append to the same base while the result is in use, the base is not the caller's slice, and the result does not leave the goroutine", bad+": two names share one backing array and one of them is overwritten (wrong segment requested / wrong name announced / the caller's own name changed under it)")
		}
	}
	c.Extra["name_appends_on_unowned_base:"+strings.TrimPrefix(pkg, core.ModPath+"/")] = nApp
	if strings.HasSuffix(pkg, "/std/object") {
		c.Floor("R15.7", "appends that build a name in std/object", nAll, 3)
	}
}

func isLoadOfField(v ssa.Value) bool {
	u, ok := core.Strip(v).(*ssa.UnOp)
	if !ok || u.Op != token.MUL {
		return false
	}
	_, ok = u.X.(*ssa.FieldAddr)
	return ok
}

// escapesGoroutine: v (or a struct it is stored into) is sent on a channel, passed to a go
// statement, captured by a closure, or passed to a static callee whose parameter does so.
func escapesGoroutine(v ssa.Value, depth int) string {
	seen := map[ssa.Value]bool{}
	var walk func(v ssa.Value, depth int) string
	walk = func(v ssa.Value, depth int) string {
		if seen[v] {
			return ""
		}
		seen[v] = true
		for _, r := range core.Refs(v) {
			switch x := r.(type) {
			case *ssa.Send:
				if x.X == v {
					return "sent on a channel"
				}
			case *ssa.Go:
				return "passed to a go statement"
			case *ssa.MakeClosure:
				return "captured by a closure"
			case *ssa.Store:
				if x.Val == v {
					// stored into a local struct cell: follow loads of the whole cell
					var al0 *ssa.Alloc
					if fa, ok := x.Addr.(*ssa.FieldAddr); ok {
						al0, _ = core.Strip(fa.X).(*ssa.Alloc)
					} else {
						al0, _ = x.Addr.(*ssa.Alloc)
					}
					{
						if al := al0; al != nil {
							for _, r2 := range core.Refs(al) {
								if u, ok := r2.(*ssa.UnOp); ok && u.Op == token.MUL {
									if how := walk(u, depth); how != "" {
										return how
									}
								}
								// the cell itself is captured (by reference) by a closure
								if _, ok := r2.(*ssa.MakeClosure); ok {
									return "kept by a closure (retry / callback)"
								}
							}
						}
					}
				}
			case *ssa.Call:
				if depth > 0 {
					if cal := x.Call.StaticCallee(); cal != nil && cal.Blocks != nil {
						for i, a := range x.Call.Args {
							if a == v && i < len(cal.Params) {
								if how := walk(cal.Params[i], depth-1); how != "" {
									return how + " (in " + core.FuncName(cal) + ")"
								}
							}
						}
					}
				}
			case *ssa.Field:
				if how := walk(x, depth); how != "" {
					return how
				}
			case *ssa.ChangeType, *ssa.MakeInterface, *ssa.Phi:
				if how := walk(x.(ssa.Value), depth); how != "" {
					return how
				}
			}
		}
		return ""
	}
	return walk(v, depth)
}

// c15Scan — R15.8: the round-robin scan of the segment fetcher terminates. When the scan
// loop ends on meeting a remembered element again ("we've gone full circle"), that
// element must not be one the same iteration can remove from the list: a removed element
// is never met again and the loop spins forever while holding the client's goroutine.
func c15Scan(c *core.Ctx) {
	fn := c.Fn("R15.8", "std/object", "rrSegFetcher", "doCheck")
	if fn == nil {
		return
	}
	var nexts []*ssa.Call
	core.Instrs(fn, func(in ssa.Instruction) {
		if cl, ok := in.(*ssa.Call); ok {
			if id, ok := core.Callee(&cl.Call); ok && id.Recv == "rrSegFetcher" && id.Name == "next" && core.InLoop(cl.Block()) {
				nexts = append(nexts, cl)
			}
		}
	})
	c.Floor("R15.8", "round-robin scan loops", len(nexts), 1)
	for _, nx := range nexts {
		h := loopHeader(nx.Block())
		if h == nil {
			continue
		}
		// the scanned element: the call's result, or a load of the local cell it is stored in
		var cell *ssa.Alloc
		for _, r := range core.Refs(nx) {
			if st, ok := r.(*ssa.Store); ok && st.Val == ssa.Value(nx) {
				if al, ok := st.Addr.(*ssa.Alloc); ok {
					cell = al
				}
			}
		}
		isScanned := func(v ssa.Value) bool {
			v = core.Strip(v)
			if v == ssa.Value(nx) {
				return true
			}
			if u, ok := v.(*ssa.UnOp); ok && u.Op == token.MUL && cell != nil && u.X == ssa.Value(cell) {
				return true
			}
			return false
		}
		// sentinel: a phi of the loop header one of whose edges is the scanned element
		var sentinel *ssa.Phi
		var assignPred *ssa.BasicBlock
		for _, in := range h.Instrs {
			ph, ok := in.(*ssa.Phi)
			if !ok {
				break
			}
			var walk func(v ssa.Value, from *ssa.BasicBlock, d int)
			walk = func(v ssa.Value, from *ssa.BasicBlock, d int) {
				if d > 4 {
					return
				}
				if isScanned(v) {
					sentinel, assignPred = ph, from
					return
				}
				if p2, ok := core.Strip(v).(*ssa.Phi); ok && p2 != ph {
					for i, e := range p2.Edges {
						walk(e, p2.Block().Preds[i], d+1)
					}
				}
			}
			for i, e := range ph.Edges {
				walk(e, h.Preds[i], 0)
			}
		}
		if sentinel == nil {
			c.Ok("R15.8", "scan-sentinel-not-removed", c.Pos(nx), "the scan does not end on meeting a remembered element again (bounded otherwise)")
			continue
		}
		// removal of the scanned element inside the same iteration after it became the sentinel
		bad := ""
		core.Instrs(fn, func(in ssa.Instruction) {
			cl, ok := in.(*ssa.Call)
			if !ok {
				return
			}
			id, ok := core.Callee(&cl.Call)
			if !ok || id.Recv != "rrSegFetcher" || id.Name != "remove" {
				return
			}
			_, args := core.CallArgs(&cl.Call)
			if len(args) != 1 || !isScanned(args[0]) {
				return
			}
			// reachable from the assignment without passing the loop header?
			var start *ssa.BasicBlock = assignPred
			if start == nil {
				return
			}
			target := map[*ssa.BasicBlock]bool{cl.Block(): true}
			// paths that do not cross the header
			cut := map[core.Edge]bool{}
			for _, pr := range h.Preds {
				cut[core.Edge{From: pr, To: h}] = true
			}
			if start == cl.Block() || core.ReachAvoiding(fn, start, target, cut) != nil {
				bad = c.Pos(cl)
			}
		})
		c.Decide(bad == "", "R15.8", "scan-sentinel-not-removed", c.Pos(nx), "the element remembered to detect a full circle cannot be removed in the iteration that remembers it", "doCheck remembers the first scanned stream to detect a full circle, but the same iteration can remove that stream from the list ("+bad+"): it is never met again and the scan loops forever (the client goroutine hangs; no other object completes)")
	}
}

// c15Round4b — rules prompted by round-4 seeds.
//
// R15.9 a configuration that is copied field by field is copied completely: a struct literal
// of type T in which three or more fields are loaded from the same fields of another T
// value is meant as a copy of that value — every field of T is then either copied or set
// explicitly. A forgotten field silently takes its zero value (an Interest config copied
// without MustBeFresh lets a cache answer the version discovery with stale metadata: the
// consumer obtains an old version, completely and without error).
//
// R15.10 what Remove removes is what Get serves: MemoryStore.Remove acts on the committed
// tree (the one Get reads) on every path, whether or not a transaction is open.
func c15Round4b(c *core.Ctx, pkg string) {
	fieldWiseCopies(c, pkg)
	c15RemoveRoot(c)
	c15SelfSend(c, pkg)
	c15CallbacksDoNotBlock(c, pkg)
	c15BoltScan(c)
	c15MemoryPrefixNewest(c)
	c15Round7(c)
}

// c15Round7 — four conditions behind seeds of round 7.
func c15Round7(c *core.Ctx) {
	p := c.P
	pkg := core.ModPath + "/std/object"
	// ---- R15.15 "byte-for-byte": the number of the last segment that Produce announces
	// (FinalBlockId) is not the floor quotient size / segment-size of the plain size: for a
	// size that is an exact multiple of the segment size that names a segment that is never
	// written, and the consumer waits for it. ((size-1)/seg, ceil forms and a counted loop
	// are all fine; one known-wrong form is reported.)
	if pr := c.Fn("R15.15", "std/object", "Client", "Produce"); pr != nil {
		nSeg, bad := 0, ""
		core.InstrsDeep(pr, func(in ssa.Instruction) { // (the segmenting may sit in a private worker)
			cl, ok := in.(*ssa.Call)
			if !ok {
				return
			}
			id, ok := core.Callee(&cl.Call)
			if !ok || id.Name != "NewSegmentComponent" || core.InLoop(cl.Block()) || len(cl.Call.Args) != 1 {
				return
			}
			nSeg++
			// strip "+1 … -1" pairs and conversions down to the quotient
			v := core.StripConv(cl.Call.Args[0])
			adj := int64(0)
			for i := 0; i < 4; i++ {
				b, isB := v.(*ssa.BinOp)
				if !isB || (b.Op != token.ADD && b.Op != token.SUB) {
					break
				}
				k, isK := core.ConstInt(b.Y)
				if !isK {
					break
				}
				if b.Op == token.ADD {
					adj += k
				} else {
					adj -= k
				}
				v = core.StripConv(b.X)
			}
			q, isQ := v.(*ssa.BinOp)
			if !isQ || q.Op != token.QUO {
				return
			}
			if _, isK := core.ConstInt(q.Y); !isK {
				return
			}
			// the dividend: plain size (a phi / sum of lengths / a Length() call) or adjusted
			num := core.StripConv(q.X)
			if nb, isB := num.(*ssa.BinOp); isB && (nb.Op == token.ADD || nb.Op == token.SUB) {
				if _, isK := core.ConstInt(nb.Y); isK {
					return // (size-1)/seg, (size+seg-1)/seg: adjusted dividend
				}
			}
			if adj == 0 {
				bad = c.Pos(cl)
			}
		})
		c.Decide(bad == "", "R15.15", "final-segment-number-is-not-the-floor-quotient", p.Pos(pr.Pos()), fmt.Sprintf("%d segment numbers computed outside the segment loop, none is size/segment-size of the unadjusted size", nSeg), "Produce announces as FinalBlockId the floor quotient of the content size by the segment size (at "+bad+"): for a size that is an exact multiple of the segment size that is one more than the last segment written — the consumer requests a segment that does not exist and the fetch ends with an error")
		c.Floor("R15.15", "segment numbers computed outside the segment loop of Produce", nSeg, 1)
	}
	// ---- R15.16 "completion reported exactly once … with an error": Content() slices the
	// buffer by the window; whoever replaces or drops the buffer resets the window with it.
	// Every function (other than the one that allocates the state) that stores to
	// ConsumeState.content as a whole also stores the window.
	{
		n, bad := 0, ""
		for _, fn := range p.FuncsIn(pkg) {
			if strings.HasSuffix(p.File(fn.Pos()), "_test.go") {
				continue
			}
			var st *ssa.Store
			wnd := false
			core.Instrs(fn, func(in ssa.Instruction) {
				s, ok := in.(*ssa.Store)
				if !ok {
					return
				}
				switch a := s.Addr.(type) {
				case *ssa.FieldAddr:
					if t, f := core.FieldAddrName(a); t == "ConsumeState" && f == "content" && !isFreshObject(a.X) {
						st = s
					}
				case *ssa.IndexAddr:
					if fa, okF := a.X.(*ssa.FieldAddr); okF {
						if t, f := core.FieldAddrName(fa); t == "ConsumeState" && f == "wnd" {
							wnd = true
						}
					}
				}
			})
			if st == nil {
				continue
			}
			n++
			// the first allocation (make sized by the segment count) happens with the
			// window still at its zero value
			if _, isMake := core.Strip(st.Val).(*ssa.MakeSlice); isMake {
				continue
			}
			if !wnd {
				bad = c.Pos(st)
			}
		}
		c.Decide(bad == "", "R15.16", "buffer-and-window-change-together", "-", fmt.Sprintf("%d stores to the segment buffer as a whole, each an allocation or with the window reset alongside", n), "the segment buffer of a ConsumeState is dropped or replaced at "+bad+" while the window that Content() slices it by stays: a completion callback that reads Content() after a failure behind partial progress slices a nil wire and panics instead of seeing the error")
		c.Floor("R15.16", "stores to ConsumeState.content as a whole", n, 1)
	}
	// ---- R15.17 "removed packets no longer served": a scan of the on-disk store over the
	// keys of a name prefix stays inside the prefix by comparing each key with the prefix
	// (bytes.HasPrefix): every cursor loop of BoltStore that starts with Seek decides its
	// continuation by that test. A computed end key (last octet + 1) is wrong where the
	// octet is 0xff.
	{
		n, bad := 0, ""
		for _, fn := range p.FuncsIn(pkg) {
			if strings.HasSuffix(p.File(fn.Pos()), "_test.go") || !strings.Contains(core.FuncName(core.RootOf(fn)), "BoltStore") {
				continue
			}
			var seek *ssa.Call
			hasPrefix := false
			core.Instrs(fn, func(in ssa.Instruction) {
				cl, ok := in.(*ssa.Call)
				if !ok {
					return
				}
				if cal := cl.Call.StaticCallee(); cal != nil {
					if cal.Name() == "Seek" && cal.Pkg != nil && strings.HasSuffix(cal.Pkg.Pkg.Path(), "bbolt") {
						seek = cl
					}
					if cal.Name() == "HasPrefix" && cal.Pkg != nil && cal.Pkg.Pkg.Path() == "bytes" {
						for _, r := range *cl.Referrers() {
							if _, isIf := r.(*ssa.If); isIf {
								hasPrefix = true
							}
							if _, isPhi := r.(*ssa.Phi); isPhi {
								hasPrefix = true
							}
						}
					}
				}
			})
			if seek == nil {
				continue
			}
			n++
			if !hasPrefix {
				bad = c.Pos(seek)
			}
		}
		c.Decide(bad == "", "R15.17", "prefix-scan-compares-with-the-prefix", "-", fmt.Sprintf("%d cursor scans started with Seek, each continued by bytes.HasPrefix", n), "a cursor scan of BoltStore that starts at a prefix key (at "+bad+") is not continued by bytes.HasPrefix(key, prefix): an end key computed from the prefix (last octet + 1, without carry) gives an empty range for names whose encoding ends in 0xff — Remove removes nothing and the version is still served")
		c.Floor("R15.17", "cursor scans started with Seek in BoltStore", n, 2)
	}
	// ---- R15.18 = R15.14's other half: a prefix query of the memory store is answered
	// from the tree as it is now — every return of a packet by MemoryStore.Get lies behind
	// the node lookup of this call (no remembered answer of an earlier query: a transaction
	// commit changes the tree without passing Put's or Remove's invalidation).
	if fn := c.Fn("R15.18", "std/object", "MemoryStore", "Get"); fn != nil {
		var look *ssa.Call
		core.Instrs(fn, func(in ssa.Instruction) {
			cl, ok := in.(*ssa.Call)
			if !ok || look != nil {
				return
			}
			cal := cl.Call.StaticCallee()
			if cal == nil || cal.Signature.Recv() == nil || cal.Signature.Results().Len() != 1 {
				return
			}
			if types.Identical(cal.Signature.Recv().Type(), cal.Signature.Results().At(0).Type()) && cal.Signature.Params().Len() > 0 {
				look = cl
			}
		})
		stale := ""
		if look != nil {
			core.Instrs(fn, func(in ssa.Instruction) {
				r, isR := in.(*ssa.Return)
				if !isR || in.Block() == fn.Recover || len(r.Results) == 0 || core.IsNilConst(core.Strip(r.Results[0])) {
					return
				}
				if !core.Precedes(fn, r, func(x ssa.Instruction) bool { return x == ssa.Instruction(look) }) {
					stale = c.Pos(r)
				}
			})
		}
		c.Decide(look != nil && stale == "", "R15.18", "memory-get-answers-from-the-tree", p.Pos(fn.Pos()), "every return of a packet lies behind the node lookup of this call", "MemoryStore.Get can return a packet without looking the name up in the tree (return at "+stale+"): an answer remembered from an earlier query survives changes of the tree that bypass its invalidation (a transaction commit), and an older version is served although a newer one was published")
	}
}

// c15MemoryPrefixNewest — R15.14 "the newest version, whether from the in-memory or the
// on-disk store": a prefix query to MemoryStore.Get descends to the newest packet below the
// node it found whenever it found one — the decision to descend depends on the query (prefix)
// and on the node existing, not on whether a packet happens to be stored under the queried
// name itself. BoltStore scans the whole prefix; a MemoryStore that stops at a packet stored
// at the prefix answers with that packet for ever, whatever newer versions exist below it.
func c15MemoryPrefixNewest(c *core.Ctx) {
	fn := c.Fn("R15.14", "std/object", "MemoryStore", "Get")
	if fn == nil {
		return
	}
	var prefix *ssa.Parameter
	for _, prm := range fn.Params {
		if b, ok := prm.Type().Underlying().(*types.Basic); ok && b.Kind() == types.Bool {
			prefix = prm
		}
	}
	// the lookup: a static call returning a pointer to a node type of this package
	var look *ssa.Call
	core.Instrs(fn, func(in ssa.Instruction) {
		cl, ok := in.(*ssa.Call)
		if !ok || look != nil {
			return
		}
		cal := cl.Call.StaticCallee()
		if cal == nil || cal.Signature.Recv() == nil || cal.Signature.Results().Len() != 1 {
			return
		}
		if types.Identical(cal.Signature.Recv().Type(), cal.Signature.Results().At(0).Type()) && cal.Signature.Params().Len() > 0 {
			look = cl
		}
	})
	if prefix == nil || look == nil {
		c.Und("R15.14", "anchor:MemoryStore.Get lookup", "-", "no boolean parameter or no node lookup found in MemoryStore.Get")
		return
	}
	nodeT := look.Type()
	isDescend := func(in ssa.Instruction) bool {
		cl, ok := in.(*ssa.Call)
		if !ok || cl == look {
			return false
		}
		cal := cl.Call.StaticCallee()
		return cal != nil && cal.Signature.Recv() != nil && cal.Signature.Params().Len() == 0 &&
			types.Identical(cal.Signature.Recv().Type(), nodeT) && cal.Signature.Results().Len() == 1 &&
			types.Identical(cal.Signature.Results().At(0).Type(), nodeT)
	}
	notPrefix := &core.Atom{Name: "prefix-query", Match: func(cond ssa.Value) (int, int) {
		if core.Strip(cond) == ssa.Value(prefix) {
			return core.Iff(true)
		}
		if x, ok := core.StripNot(cond); ok && core.Strip(x) == ssa.Value(prefix) {
			return core.Iff(false)
		}
		return 0, 0
	}}
	found := &core.Atom{Name: "node-found", Match: func(cond ssa.Value) (int, int) {
		op, x, y, ok := core.Cmp(cond)
		if !ok || (op != token.EQL && op != token.NEQ) {
			return 0, 0
		}
		if core.IsNilConst(x) {
			x, y = y, x
		}
		if !core.IsNilConst(y) || core.Strip(x) != ssa.Value(look) {
			return 0, 0
		}
		return core.Iff(op == token.NEQ)
	}}
	cut, _ := core.CutEdges(fn, core.Lit{A: notPrefix, Want: false}, core.Lit{A: found, Want: false})
	fr := core.MustFollowCut(fn, core.After(look), isDescend, nil, cut)
	c.Decide(fr.OK, "R15.14", "memory-prefix-get-descends-to-newest", c.Pos(look), "every path of a prefix query that found a node passes through the descent to the newest packet below it", "MemoryStore.Get answers a prefix query without descending to the newest packet below the node it found on some path (the descent also depends on something else than the query and the node existing, e.g. on a packet being stored at the prefix itself): once a packet is stored under the queried prefix, newer versions below it are never served, while BoltStore serves them"+func() string {
		if fr.Exit != nil {
			return "; exit at " + c.Pos(fr.Exit) + " path " + c.P.PathString(fr.Path)
		}
		return ""
	}())
}

// c15BoltScan — R15.12 "the newest version, whether from the in-memory or the on-disk
// store": the prefix scan of BoltStore.Get ends only where the cursor ends or leaves the
// prefix — every exit of the cursor loop is decided by the key the cursor returned. A scan
// that gives up after a fixed number of keys answers with an older version once enough
// versions exist (keys are ordered by name, the newest version is the last of them).
func c15BoltScan(c *core.Ctx) {
	p := c.P
	var get *ssa.Function
	for _, fn := range p.FuncsIn(core.ModPath + "/std/object") {
		root := core.RootOf(fn)
		if root != nil && core.BaseName(root) == "Get" && strings.Contains(core.FuncName(root), "BoltStore") {
			found := false
			core.Instrs(fn, func(in ssa.Instruction) {
				if ci, ok := in.(*ssa.Call); ok {
					if cal := ci.Call.StaticCallee(); cal != nil && cal.Name() == "Next" && core.InLoop(ci.Block()) {
						found = true
					}
				}
			})
			if found {
				get = fn
			}
		}
	}
	if get == nil {
		c.Und("R15.12", "anchor:BoltStore.Get cursor loop", "-", "no cursor loop found in BoltStore.Get")
		return
	}
	c.Funcs[core.FuncName(get)] = true
	var next *ssa.Call
	core.Instrs(get, func(in ssa.Instruction) {
		if ci, ok := in.(*ssa.Call); ok {
			if cal := ci.Call.StaticCallee(); cal != nil && cal.Name() == "Next" && core.InLoop(ci.Block()) {
				next = ci
			}
		}
	})
	h := loopHeader(next.Block())
	if h == nil {
		c.Und("R15.12", "anchor:BoltStore.Get cursor loop", c.Pos(next), "the cursor's Next call is not inside a loop")
		return
	}
	inLoop := func(b *ssa.BasicBlock) bool {
		if b == h {
			return true
		}
		for _, x := range enclosingLoops(b) {
			if x == h {
				return true
			}
		}
		return false
	}
	// does the value depend on what the cursor returned?
	var dependsOnCursor func(v ssa.Value, seen map[ssa.Value]bool) bool
	dependsOnCursor = func(v ssa.Value, seen map[ssa.Value]bool) bool {
		if v == nil || seen[v] {
			return false
		}
		seen[v] = true
		if ci, ok := v.(*ssa.Call); ok {
			if cal := ci.Call.StaticCallee(); cal != nil && (cal.Name() == "Next" || cal.Name() == "Seek") && cal.Pkg != nil && strings.Contains(cal.Pkg.Pkg.Path(), "bbolt") {
				return true
			}
		}
		in, ok := v.(ssa.Instruction)
		if !ok {
			return false
		}
		for _, o := range in.Operands(nil) {
			if o != nil && *o != nil && dependsOnCursor(*o, seen) {
				return true
			}
		}
		return false
	}
	nExit, bad := 0, ""
	for _, b := range get.Blocks {
		if !inLoop(b) || len(b.Instrs) == 0 {
			continue
		}
		for _, s2 := range b.Succs {
			if inLoop(s2) {
				continue
			}
			// an exit edge of the loop; returns with an error are not "giving up the scan"
			iff, isIf := b.Instrs[len(b.Instrs)-1].(*ssa.If)
			if !isIf {
				continue
			}
			nExit++
			if !dependsOnCursor(iff.Cond, map[ssa.Value]bool{}) {
				bad = c.Pos(iff)
			}
		}
	}
	c.Decide(nExit > 0 && bad == "", "R15.12", "bolt-prefix-scan-ends-only-with-the-prefix", p.Pos(get.Pos()), fmt.Sprintf("%d exits of the cursor loop, each decided by the key the cursor returned", nExit), "the prefix scan of BoltStore.Get can end on a condition that does not depend on the cursor ("+bad+", e.g. an iteration budget): with more keys under the prefix than that, the newest version is never examined and the on-disk store answers with an older one than the in-memory store")
}

// c15SelfSend — R15.11: the client goroutine (the function whose loop selects over the
// client's channels) never makes a blocking send on one of the channels that only it
// receives from, in anything it calls synchronously: once that channel is full the
// goroutine waits for itself, and no pending Consume ever completes.
// c15FuncValues resolves a called function value to the functions of the package it can
// stand for: a closure, a parameter (the arguments at the package's call sites of the
// enclosing function), a captured variable (what the parent stored in the cell).
func c15FuncValues(p *core.Prog, pkg string, v ssa.Value, depth int) []*ssa.Function {
	if depth == 0 {
		return nil
	}
	var out []*ssa.Function
	switch x := core.Strip(v).(type) {
	case *ssa.Function:
		out = append(out, x)
	case *ssa.MakeClosure:
		if fn, ok := x.Fn.(*ssa.Function); ok {
			out = append(out, fn)
		}
	case *ssa.ChangeType:
		out = append(out, c15FuncValues(p, pkg, x.X, depth)...)
	case *ssa.Phi:
		for _, e := range x.Edges {
			out = append(out, c15FuncValues(p, pkg, e, depth-1)...)
		}
	case *ssa.Parameter:
		g := x.Parent()
		idx := -1
		for i, pr := range g.Params {
			if pr == x {
				idx = i
			}
		}
		if idx < 0 {
			return nil
		}
		for _, caller := range p.FuncsIn(pkg) {
			core.Instrs(caller, func(in ssa.Instruction) {
				ci, ok := in.(ssa.CallInstruction)
				if !ok || ci.Common().StaticCallee() != g || idx >= len(ci.Common().Args) {
					return
				}
				out = append(out, c15FuncValues(p, pkg, ci.Common().Args[idx], depth-1)...)
			})
		}
	case *ssa.FreeVar:
		out = append(out, c15FuncValues(p, pkg, c15Binding(x), depth-1)...)
	case *ssa.UnOp:
		if x.Op != token.MUL {
			return nil
		}
		cell := core.Strip(x.X)
		if fv, ok := cell.(*ssa.FreeVar); ok {
			cell = c15Binding(fv)
		}
		switch al := cell.(type) {
		case *ssa.Alloc:
			for _, r := range *al.Referrers() {
				if st, ok := r.(*ssa.Store); ok && st.Addr == al {
					out = append(out, c15FuncValues(p, pkg, st.Val, depth-1)...)
				}
			}
		case *ssa.FieldAddr:
			// a field of a captured or local struct: what the package stores in that field
			tn, fname := core.FieldAddrName(al)
			for _, w := range p.FuncsIn(pkg) {
				core.Instrs(w, func(in ssa.Instruction) {
					st, ok := in.(*ssa.Store)
					if !ok {
						return
					}
					fa, ok := st.Addr.(*ssa.FieldAddr)
					if !ok {
						return
					}
					if t2, f2 := core.FieldAddrName(fa); t2 == tn && f2 == fname {
						out = append(out, c15FuncValues(p, pkg, st.Val, depth-1)...)
					}
				})
			}
		}
	}
	return out
}

// c15Binding gives the value the parent bound to a closure's free variable.
func c15Binding(fv *ssa.FreeVar) ssa.Value {
	g := fv.Parent()
	idx := -1
	for i, f := range g.FreeVars {
		if f == fv {
			idx = i
		}
	}
	if idx < 0 || g.Parent() == nil {
		return nil
	}
	var b ssa.Value
	core.Instrs(g.Parent(), func(in ssa.Instruction) {
		if mc, ok := in.(*ssa.MakeClosure); ok && mc.Fn == g && idx < len(mc.Bindings) {
			b = mc.Bindings[idx]
		}
	})
	return b
}

// c15IsParam: v is the parameter, or a load of the cell the parameter was spilled to because a
// closure captures it (the cell is written once, by the spill; closures only read it).
func c15IsParam(v ssa.Value, prm *ssa.Parameter) bool {
	v = core.Strip(v)
	if v == ssa.Value(prm) {
		return true
	}
	ld, ok := v.(*ssa.UnOp)
	if !ok || ld.Op != token.MUL {
		return false
	}
	al, ok := ld.X.(*ssa.Alloc)
	if !ok {
		return false
	}
	n := 0
	for _, r := range *al.Referrers() {
		switch x := r.(type) {
		case *ssa.Store:
			if x.Addr != ssa.Value(al) || x.Val != ssa.Value(prm) {
				return false
			}
			n++
		case *ssa.MakeClosure:
			fn, _ := x.Fn.(*ssa.Function)
			for bi, b := range x.Bindings {
				if b != ssa.Value(al) || fn == nil || bi >= len(fn.FreeVars) {
					continue
				}
				for _, r2 := range *fn.FreeVars[bi].Referrers() {
					if st, ok := r2.(*ssa.Store); ok && st.Addr == ssa.Value(fn.FreeVars[bi]) {
						return false
					}
					if _, ok := r2.(*ssa.MakeClosure); ok {
						return false
					}
				}
			}
		case *ssa.UnOp, *ssa.DebugRef:
		default:
			return false
		}
	}
	return n == 1
}

// c15EdgeRefused: the call cl inside g is taken only while a field of one of g's parameters
// is nil (every path to it leaves a test of that field on the nil side), and the call that
// entered g handed in, for that parameter, a record in whose field the caller had just put a
// value it had already dereferenced — not nil, or the caller would have stopped before the
// call. In that context g never makes the call cl.
func c15EdgeRefused(g *ssa.Function, cl *ssa.Call, by *ssa.Call) bool {
	if by.Call.StaticCallee() != g {
		return false
	}
	h := by.Parent()
	for i, prm := range g.Params {
		if i >= len(by.Call.Args) {
			break
		}
		pt, ok := prm.Type().Underlying().(*types.Pointer)
		if !ok {
			continue
		}
		st, ok := pt.Elem().Underlying().(*types.Struct)
		if !ok {
			continue
		}
		// fields of the parameter that g tests against nil
		fields := map[int]bool{}
		written := map[int]bool{}
		core.Instrs(g, func(in ssa.Instruction) {
			if fa, ok := in.(*ssa.FieldAddr); ok && c15IsParam(fa.X, prm) {
				for _, r := range *fa.Referrers() {
					if s, ok := r.(*ssa.Store); ok && s.Addr == ssa.Value(fa) {
						written[fa.Field] = true
					}
				}
				fields[fa.Field] = true
			}
		})
		for fi := range fields {
			if written[fi] {
				continue
			}
			atom := &core.Atom{Name: "field-not-nil", Match: func(cond ssa.Value) (int, int) {
				op, x, y, ok := core.Cmp(cond)
				if !ok || (op != token.EQL && op != token.NEQ) {
					return 0, 0
				}
				if core.IsNilConst(x) {
					x, y = y, x
				}
				if !core.IsNilConst(y) {
					return 0, 0
				}
				ld, ok := core.Strip(x).(*ssa.UnOp)
				if !ok || ld.Op != token.MUL {
					return 0, 0
				}
				fa, ok := ld.X.(*ssa.FieldAddr)
				if !ok || fa.Field != fi || !c15IsParam(fa.X, prm) {
					return 0, 0
				}
				return core.Iff(op == token.NEQ)
			}}
			res := core.Gate(g, []ssa.Instruction{cl}, core.Lit{A: atom, Want: false})
			if !res.OK || res.PassEdges == 0 {
				continue
			}
			// the entering caller: a store into that field of the argument, of a value it
			// dereferences, both before the call on every path
			arg := core.Strip(by.Call.Args[i])
			var stored ssa.Value
			isStore := func(in ssa.Instruction) bool {
				s, ok := in.(*ssa.Store)
				if !ok {
					return false
				}
				fa, ok := s.Addr.(*ssa.FieldAddr)
				if !ok || fa.Field != fi || !core.Same(fa.X, arg) {
					return false
				}
				if t, ok := fa.X.Type().Underlying().(*types.Pointer); !ok || !types.Identical(t.Elem().Underlying(), st) {
					return false
				}
				stored = s.Val
				return true
			}
			if !core.Precedes(h, by, isStore) || stored == nil || core.IsNilConst(stored) {
				continue
			}
			v := core.Strip(stored)
			if _, ok := v.(*ssa.Alloc); ok {
				return true
			}
			isDeref := func(in ssa.Instruction) bool {
				switch x := in.(type) {
				case *ssa.FieldAddr:
					return core.Same(x.X, v)
				case *ssa.UnOp:
					return x.Op == token.MUL && core.Same(x.X, v)
				}
				return false
			}
			if core.Precedes(h, by, isDeref) {
				return true
			}
		}
	}
	return false
}

// c15CallbacksDoNotBlock — R15.13: the engine runs the callback of an expressed Interest with
// its PIT lock held, and one Data can resolve any number of pending Interests in one pass. A
// callback that makes a blocking send on a channel whose reader (the client goroutine) needs
// that lock to express its next Interest waits for ever once the channel is full: with more
// than a channel's worth of consumers of one object none of them ever completes. Every
// function that becomes an ndn.ExpressCallbackFunc in std/object — and what it calls
// synchronously — makes no blocking channel send.
func c15CallbacksDoNotBlock(c *core.Ctx, pkg string) {
	p := c.P
	isCbType := func(t types.Type) bool {
		n, ok := t.(*types.Named)
		return ok && n.Obj().Name() == "ExpressCallbackFunc"
	}
	cbs := map[*ssa.Function]string{}
	note := func(v ssa.Value, at ssa.Instruction) {
		switch x := core.Strip(v).(type) {
		case *ssa.MakeClosure:
			if fn, ok := x.Fn.(*ssa.Function); ok {
				cbs[fn] = c.Pos(at)
			}
		case *ssa.Function:
			cbs[x] = c.Pos(at)
		case *ssa.ChangeType:
			if mc, ok := core.Strip(x.X).(*ssa.MakeClosure); ok {
				if fn, ok2 := mc.Fn.(*ssa.Function); ok2 {
					cbs[fn] = c.Pos(at)
				}
			}
		}
	}
	for _, fn := range p.FuncsIn(pkg) {
		if strings.HasSuffix(p.File(fn.Pos()), "_test.go") {
			continue
		}
		core.Instrs(fn, func(in ssa.Instruction) {
			switch x := in.(type) {
			case *ssa.ChangeType:
				if isCbType(x.Type()) {
					note(x.X, in)
				}
			case *ssa.Store:
				if pt, ok := x.Addr.Type().Underlying().(*types.Pointer); ok && isCbType(pt.Elem()) {
					note(x.Val, in)
				}
			case ssa.CallInstruction:
				sig := x.Common().Signature()
				off := 0
				if x.Common().IsInvoke() {
					off = 0
				} else if sig.Recv() != nil {
					off = 1
				}
				for i, a := range x.Common().Args {
					pi := i - off
					if pi >= 0 && pi < sig.Params().Len() && isCbType(sig.Params().At(pi).Type()) {
						note(a, in)
					}
				}
			}
		})
	}
	var fns []*ssa.Function
	for f := range cbs {
		fns = append(fns, f)
	}
	sort.Slice(fns, func(i, j int) bool { return core.FuncName(fns[i]) < core.FuncName(fns[j]) })
	for _, cb := range fns {
		// a function is visited once per call that enters it: whether one of its calls can be
		// taken may depend on what the entering caller established (c15EdgeRefused)
		type ent struct {
			fn *ssa.Function
			by *ssa.Call
		}
		reach := map[*ssa.Function]bool{cb: true}
		seen := map[ent]bool{{cb, nil}: true}
		via := map[*ssa.Function]*ssa.Function{}
		work := []ent{{cb, nil}}
		for len(work) > 0 {
			e := work[len(work)-1]
			g := e.fn
			work = work[:len(work)-1]
			push := func(t *ssa.Function, by *ssa.Call) {
				if t.Blocks == nil || seen[ent{t, by}] {
					return
				}
				seen[ent{t, by}] = true
				if !reach[t] {
					reach[t] = true
					via[t] = g
				}
				work = append(work, ent{t, by})
			}
			core.Instrs(g, func(in ssa.Instruction) {
				cl, ok := in.(*ssa.Call)
				if !ok {
					return
				}
				cal := cl.Call.StaticCallee()
				if cal == nil && !cl.Call.IsInvoke() {
					// a function value: the closures the package hands in for it
					for _, t := range c15FuncValues(p, pkg, cl.Call.Value, 4) {
						push(t, nil)
					}
					return
				}
				if cal == nil || cal.Blocks == nil {
					return
				}
				path := ""
				if cal.Pkg != nil {
					path = cal.Pkg.Pkg.Path()
				} else if cal.Origin() != nil && cal.Origin().Pkg != nil {
					path = cal.Origin().Pkg.Pkg.Path()
				}
				if path != pkg {
					return
				}
				if e.by != nil && c15EdgeRefused(g, cl, e.by) {
					return
				}
				push(cal, cl)
			})
		}
		bad := ""
		var rs []*ssa.Function
		for g := range reach {
			rs = append(rs, g)
		}
		sort.Slice(rs, func(i, j int) bool { return core.FuncName(rs[i]) < core.FuncName(rs[j]) })
		for _, g := range rs {
			core.Instrs(g, func(in ssa.Instruction) {
				blocking := false
				switch x := in.(type) {
				case *ssa.Send:
					blocking = true
				case *ssa.Select:
					if x.Blocking {
						for _, st := range x.States {
							if st.Dir == types.SendOnly {
								blocking = true
							}
						}
					}
				}
				if blocking {
					chain := core.FuncName(g)
					for h := via[g]; h != nil; h = via[h] {
						chain = core.FuncName(h) + " → " + chain
					}
					if bad != "" {
						bad += "; "
					}
					bad += fmt.Sprintf("blocking send at %s (%s)", c.Pos(in), chain)
				}
			})
		}
		c.Decide(bad == "", "R15.13", "engine-callback-does-not-block:"+core.FuncName(cb), cbs[cb], fmt.Sprintf("no blocking channel send in the %d functions the callback runs", len(reach)), "a callback the engine runs with its PIT lock held makes a "+bad+": the client goroutine that reads that channel needs the same lock to express its next Interest, so once the channel is full (more consumers of one object than it has room for) the callback waits for ever with the lock held and no Consume ever completes")
	}
	c.Floor("R15.13", "functions that become engine callbacks in std/object", len(fns), 2)
}

func c15SelfSend(c *core.Ctx, pkg string) {
	p := c.P
	nLoops := 0
	for _, fn := range p.FuncsIn(pkg) {
		if strings.HasSuffix(p.File(fn.Pos()), "_test.go") {
			continue
		}
		// channels received in a select inside a loop of fn
		own := map[string]bool{}
		core.Instrs(fn, func(in ssa.Instruction) {
			sel, ok := in.(*ssa.Select)
			if !ok || !core.InLoop(sel.Block()) {
				return
			}
			for _, st := range sel.States {
				if st.Dir == types.RecvOnly {
					if _, path := core.FieldPath(st.Chan); len(path) > 0 {
						own[path[len(path)-1]] = true
					}
				}
			}
		})
		if len(own) < 2 {
			continue
		}
		nLoops++
		c.Funcs[core.FuncName(fn)] = true
		// received anywhere else? then the loop is not the only receiver
		for _, g := range p.FuncsIn(pkg) {
			if g == fn {
				continue
			}
			core.Instrs(g, func(in ssa.Instruction) {
				var ch ssa.Value
				switch x := in.(type) {
				case *ssa.UnOp:
					if x.Op == token.ARROW {
						ch = x.X
					}
				case *ssa.Select:
					for _, st := range x.States {
						if st.Dir == types.RecvOnly {
							if _, path := core.FieldPath(st.Chan); len(path) > 0 {
								delete(own, path[len(path)-1])
							}
						}
					}
				}
				if ch != nil {
					if _, path := core.FieldPath(ch); len(path) > 0 {
						delete(own, path[len(path)-1])
					}
				}
			})
		}
		// synchronous callees (static calls only; closures run where they are called)
		reach := map[*ssa.Function]bool{fn: true}
		work := []*ssa.Function{fn}
		via := map[*ssa.Function]*ssa.Function{}
		for len(work) > 0 {
			g := work[len(work)-1]
			work = work[:len(work)-1]
			core.Instrs(g, func(in ssa.Instruction) {
				ci, ok := in.(*ssa.Call)
				if !ok {
					return
				}
				cal := ci.Call.StaticCallee()
				if cal == nil || cal.Blocks == nil || cal.Pkg == nil || !strings.HasPrefix(cal.Pkg.Pkg.Path(), core.ModPath) || reach[cal] {
					return
				}
				if _, isClosure := ci.Call.Value.(*ssa.MakeClosure); isClosure {
					reach[cal] = true
					via[cal] = g
					work = append(work, cal)
					return
				}
				reach[cal] = true
				via[cal] = g
				work = append(work, cal)
			})
		}
		bad := ""
		for g := range reach {
			core.Instrs(g, func(in ssa.Instruction) {
				var ch ssa.Value
				switch x := in.(type) {
				case *ssa.Send:
					ch = x.Chan
				case *ssa.Select:
					if x.Blocking {
						for _, st := range x.States {
							if st.Dir == types.SendOnly {
								ch = st.Chan
							}
						}
					}
				}
				if ch == nil {
					return
				}
				if _, path := core.FieldPath(ch); len(path) > 0 && own[path[len(path)-1]] {
					chain := core.FuncName(g)
					for h := via[g]; h != nil; h = via[h] {
						chain = core.FuncName(h) + " → " + chain
					}
					bad = fmt.Sprintf("%s sends on %s at %s (%s)", core.FuncName(g), path[len(path)-1], c.Pos(in), chain)
				}
			})
		}
		c.Decide(bad == "", "R15.11", "loop-goroutine-does-not-wait-for-itself:"+core.FuncName(fn), p.Pos(fn.Pos()), fmt.Sprintf("%d channels only this loop receives from; no blocking send on them in %d functions it calls synchronously", len(own), len(reach)), "the goroutine that is the only receiver of a channel makes a blocking send on it: "+bad+" — once the channel is full (1024 Interests queued by callers) it waits for itself for ever, and no pending Consume completes or fails")
	}
	c.Floor("R15.11", "select loops over the client's channels", nLoops, 1)
}

func fieldWiseCopies(c *core.Ctx, pkg string) {
	p := c.P
	nCopies := 0
	for _, fn := range p.FuncsIn(pkg) {
		if strings.HasSuffix(p.File(fn.Pos()), "_test.go") {
			continue
		}
		core.Instrs(fn, func(in ssa.Instruction) {
			al, ok := in.(*ssa.Alloc)
			if !ok {
				return
			}
			st, ok := core.Deref(al.Type()).Underlying().(*types.Struct)
			if !ok || st.NumFields() < 4 {
				return
			}
			set := map[int]bool{}
			fromSrc := map[string]int{}
			for _, r := range core.Refs(al) {
				fa, isFA := r.(*ssa.FieldAddr)
				if !isFA {
					continue
				}
				for _, r2 := range core.Refs(fa) {
					stI, isSt := r2.(*ssa.Store)
					if !isSt || stI.Addr != ssa.Value(fa) {
						continue
					}
					set[fa.Field] = true
					if u, isU := core.Strip(stI.Val).(*ssa.UnOp); isU && u.Op == token.MUL {
						if sfa, isS := u.X.(*ssa.FieldAddr); isS && sfa.Field == fa.Field && types.Identical(core.Deref(sfa.X.Type()), core.Deref(al.Type())) {
							fromSrc[accessKey(sfa.X)]++
						}
					}
				}
			}
			best := 0
			for _, n := range fromSrc {
				if n > best {
					best = n
				}
			}
			if best < 3 {
				return
			}
			nCopies++
			var missing []string
			for i := 0; i < st.NumFields(); i++ {
				if !set[i] && st.Field(i).Exported() {
					missing = append(missing, st.Field(i).Name())
				}
			}
			c.Decide(len(missing) == 0, "R15.9", "field-wise-copy-is-complete:"+core.FuncName(fn), c.Pos(in), "every field of the copied configuration is copied or set", core.FuncName(fn)+" copies a "+core.Deref(al.Type()).String()+" field by field and leaves out "+strings.Join(missing, ", ")+": the copy silently has the zero value there — without MustBeFresh the version discovery can be answered by a cache with the metadata of an older version, and the consumer obtains that version completely and without error")
		})
	}
	c.Extra["field_wise_struct_copies"] = nCopies
}

func c15RemoveRoot(c *core.Ctx) {
	p := c.P
	if rm := c.Fn("R15.10", "std/object", "MemoryStore", "Remove"); rm != nil {
		isRootRemove := func(in ssa.Instruction) bool {
			ci, ok := in.(ssa.CallInstruction)
			if !ok {
				return false
			}
			id, ok := core.Callee(ci.Common())
			if !ok || id.Recv != "memoryStoreNode" || id.Name != "remove" {
				return false
			}
			r, _ := core.CallArgs(ci.Common())
			_, isRoot := core.FieldOf(r, "root")
			return isRoot
		}
		fr := core.MustFollowDeep(rm, core.Point{Block: rm.Blocks[0], Idx: 0}, isRootRemove, nil)
		c.Decide(fr.OK, "R15.10", "remove-acts-on-the-committed-tree", p.Pos(rm.Pos()), "Remove removes from the tree that Get reads on every path", "MemoryStore.Remove can leave the committed tree (the one Get serves from) untouched — e.g. it acts on the pending transaction while one is open: packets that were removed are still served, to exact and prefix lookups and to consumers")
	}
}

// accessKey names the place a value is read from (parameter, captured variable, field
// chain), so that two loads of the same place have the same key (go/ssa does no CSE).
func accessKey(v ssa.Value) string {
	for depth := 0; depth < 8; depth++ {
		switch x := core.Strip(v).(type) {
		case *ssa.UnOp:
			if x.Op == token.MUL {
				return "*" + accessKey(x.X)
			}
			return x.Name()
		case *ssa.FieldAddr:
			return accessKey(x.X) + "." + strconv.Itoa(x.Field)
		case *ssa.Field:
			return accessKey(x.X) + "." + strconv.Itoa(x.Field)
		case *ssa.Parameter:
			return "param:" + x.Name()
		case *ssa.FreeVar:
			return "free:" + x.Name()
		default:
			if x == nil {
				return "?"
			}
			return x.Name()
		}
	}
	return "?"
}
