package props

import (
	"fmt"
	"go/token"
	"go/types"
	"sort"
	"strings"

	"ndndcheck/core"

	"golang.org/x/tools/go/ssa"
)

// c16Guards maps "Type.field" of shared table state to the locks that protect it.
var c16Guards = map[string][]string{}

func init() {
	tree := []string{"FibStrategyTree.fibStrategyRWMutex"}
	ht := []string{"FibStrategyHashTable.fibStrategyRWMutex"}
	core.LockAlias["FibStrategyTree.fibStrategyRWMutex"] = "FIB"
	core.LockAlias["FibStrategyHashTable.fibStrategyRWMutex"] = "FIB"
	anyFib := []string{"FIB"}
	rib := []string{"RibTable.mutex"}
	for _, f := range []string{"root", "fibPrefixes"} {
		c16Guards["FibStrategyTree."+f] = tree
	}
	for _, f := range []string{"depth", "parent", "children"} {
		c16Guards["fibStrategyTreeEntry."+f] = tree
	}
	for _, f := range []string{"realTable", "virtTable", "virtTableNames"} {
		c16Guards["FibStrategyHashTable."+f] = ht
	}
	c16Guards["virtualDetails.md"] = ht
	for _, f := range []string{"name", "nexthops", "strategy", "component"} {
		c16Guards["baseFibStrategyEntry."+f] = anyFib
	}
	for _, f := range []string{"Nexthop", "Cost"} {
		c16Guards["FibNextHopEntry."+f] = anyFib
	}
	for _, f := range []string{"component", "Name", "depth", "parent", "children", "routes"} {
		c16Guards["RibEntry."+f] = rib
	}
	for _, f := range []string{"FaceID", "Origin", "Cost", "Flags", "ExpirationPeriod"} {
		c16Guards["Route."+f] = rib
	}
}

// c16Frozen: functions whose unguarded accesses were read and found safe.
var c16Frozen = map[string]string{
	"fw/table.newFibStrategyTableTree":              "constructor: runs before the table is published in FibStrategyTable",
	"fw/table.newFibStrategyTableHashTable":         "constructor: runs before the table is published in FibStrategyTable",
	"fw/table.baseFibStrategyEntry.Name":            "read-only accessor; outside the package it is only reachable on snapshot entries (R16.2: listings return copies)",
	"fw/table.baseFibStrategyEntry.GetStrategy":     "read-only accessor on snapshot entries (R16.2)",
	"fw/table.baseFibStrategyEntry.GetNextHops":     "read-only accessor on snapshot entries (R16.2)",
	"fw/table.RibEntry.GetRoutes":                   "read-only accessor on snapshot entries returned by GetAllEntries (R16.2)",
	"fw/table.fibStrategyTreeEntry.pruneIfEmptyEnc": "unused duplicate of pruneIfEmpty (no caller anywhere in the repository)",
	"fw/table.init":                      "package variable initialiser: runs before any goroutine exists",
	"fw/table.Route.HasCaptureFlag":      "called only under the RIB lock from RIB code, and on caller-owned Route values",
	"fw/table.Route.HasChildInheritFlag": "called only under the RIB lock from RIB code, and on caller-owned Route values",
}

// C16 — Shared tables tolerate concurrent updates, teardown and lookups.
func C16(c *core.Ctx) {
	c.Explain = "Linearizability of lookups and absence of deadlock beyond lock order are NOT decided. Decided structural necessary conditions (a data race needs no schedule to be seen): (R16.1 lockset) every access in fw/table to a field of the shared RIB, name-tree FIB, hash-table FIB and next-hop entries happens with that table's lock held on every path — must-held locksets by forward dataflow inside each function, and for helpers the intersection over all call sites (a helper is 'called with the lock' iff every caller holds it); writes need the write lock; (R16.2 escape) lookups and listings of both FIBs and of the RIB return only storage allocated in the call (copies), or slices that are never updated in place (names), so nothing handed out is mutated later under a lock the reader does not hold; no code outside fw/table writes a field of a next-hop or route entry it obtained from a table; (R16.3) every Lock/RLock is released on all exits, and the lock order is RIB before FIB only."
	c.RuleText = "instances: every field access (FieldAddr) in package fw/table on the guarded field set, every return of the lookup/listing methods, every Lock call. Non-trivial = an access with a lockset to decide, a returned value with provenance leaves."
	p := c.P
	pkg := core.ModPath + "/fw/table"
	entry, held := core.EntryLocks(p, pkg)

	// ---- R16.1
	nAcc, nOK := 0, 0
	type agg struct {
		n   int
		pos string
		msg string
	}
	bad := map[string]*agg{}
	entryDesc := map[string]string{}
	for _, fn := range p.FuncsIn(pkg) {
		fname := core.FuncName(fn)
		if strings.HasSuffix(p.File(fn.Pos()), "_test.go") {
			continue
		}
		entryDesc[fname] = entry[fn].String()
		core.Instrs(fn, func(in ssa.Instruction) {
			// whole-struct load / store of a guarded entry type (e.g. `c := *nh`)
			if t, addr, wr, ok := wholeStructAccess(in); ok {
				locks := c16StructLocks(t)
				if locks == nil || isFreshObject(addr) {
					return
				}
				nAcc++
				h := held[fn][in]
				for _, l := range locks {
					if h["W:"+l] || (!wr && h["R:"+l]) {
						nOK++
						return
					}
				}
				if why, ok := c16Frozen[fname]; ok {
					c.Ok("R16.1", "frozen:"+fname+":"+t+".*", c.Pos(in), "read and found safe: "+why)
					nOK++
					return
				}
				kind := "read"
				if wr {
					kind = "write"
				}
				key := fmt.Sprintf("%s:%s.*:%s", fname, t, kind)
				msg := fmt.Sprintf("whole-struct %s of %s in %s with lockset %s (entry lockset over all callers %s); needs %v", kind, t, fname, h, entry[fn], locks)
				if a, ok := bad[key]; ok {
					a.n++
				} else {
					bad[key] = &agg{1, c.Pos(in), msg}
				}
				return
			}
			fa, ok := in.(*ssa.FieldAddr)
			if !ok {
				return
			}
			t, f := core.FieldAddrName(fa)
			locks, guarded := c16Guards[t+"."+f]
			if !guarded {
				return
			}
			// freshly allocated object in this function: not yet shared
			if isFreshObject(fa.X) {
				return
			}
			nAcc++
			write := false
			for _, r := range core.Refs(fa) {
				switch x := r.(type) {
				case *ssa.Store:
					if x.Addr == ssa.Value(fa) {
						write = true
					}
				case *ssa.UnOp:
					// a map loaded from the field and then updated / deleted from
					for _, r2 := range core.Refs(x) {
						if mu, ok := r2.(*ssa.MapUpdate); ok && mu.Map == ssa.Value(x) {
							write = true
						}
						if cl, ok := isBuiltinCall(r2, "delete"); ok && cl.Call.Args[0] == ssa.Value(x) {
							write = true
						}
						// element stores into a slice loaded from the field
						if ia, ok := r2.(*ssa.IndexAddr); ok {
							for _, r3 := range core.Refs(ia) {
								if st, ok := r3.(*ssa.Store); ok && st.Addr == ssa.Value(ia) {
									write = true
								}
							}
						}
					}
				}
			}
			h := held[fn][in]
			okHeld := false
			for _, l := range locks {
				if h["W:"+l] || (!write && h["R:"+l]) {
					okHeld = true
				}
			}
			if okHeld {
				nOK++
				return
			}
			if why, ok := c16Frozen[fname]; ok {
				c.Ok("R16.1", "frozen:"+fname+":"+t+"."+f, c.Pos(in), "read and found safe: "+why)
				nOK++
				return
			}
			kind := "read"
			if write {
				kind = "write"
			}
			key := fmt.Sprintf("%s:%s.%s:%s", fname, t, f, kind)
			msg := fmt.Sprintf("%s of %s.%s in %s with lockset %s (entry lockset over all callers %s); needs %v", kind, t, f, fname, h, entry[fn], locks)
			if a, ok := bad[key]; ok {
				a.n++
			} else {
				bad[key] = &agg{1, c.Pos(in), msg}
			}
		})
	}
	var keys []string
	for k := range bad {
		keys = append(keys, k)
	}
	sort.Strings(keys)
	for _, k := range keys {
		a := bad[k]
		c.Viol("R16.1", "unguarded-access:"+k, a.pos, fmt.Sprintf("%s (%d site(s)): another goroutine can access the same table concurrently — a data race", a.msg, a.n))
	}
	c.Ok("R16.1", "guarded-accesses", "-", fmt.Sprintf("%d accesses to guarded table fields in fw/table; %d under the right lock on every path (or frozen after reading)", nAcc, nOK))
	c.Floor("R16.1", "accesses to guarded table fields", nAcc, 100)
	c.Extra["guarded_fields"] = len(c16Guards)

	// ---- R16.2 escape
	sl := &core.Slicer{P: p}
	type ret struct{ iface, method string }
	fib := p.Named("fw/table", "FibStrategy")
	var impls []*types.Named
	if fib != nil {
		impls = p.Implementations(fib)
	}
	c.Floor("R16.2", "FibStrategy implementations", len(impls), 2)
	// returned values of fn, followed into the functions of the package that hand them up
	// (entry.GetNextHops(), f.collectEntries(keep)): bad is the first leaf that is table storage
	var leavesOf func(fn *ssa.Function, depth int) (bad string, n int)
	leavesOf = func(fn *ssa.Function, depth int) (bad string, n int) {
		c.Funcs[core.FuncName(fn)] = true
		core.Instrs(fn, func(in ssa.Instruction) {
			r, ok := in.(*ssa.Return)
			if !ok || len(r.Results) == 0 || in.Block() == fn.Recover {
				return
			}
			for _, l := range sl.Leaves(r.Results[0]) {
				n++
				switch l.Kind {
				case "make", "alloc", "const":
					continue
				case "call":
					// a helper of the package that itself returns fresh storage
					if cl, ok := l.Val.(*ssa.Call); ok {
						if id, ok := core.Callee(&cl.Call); ok && id.Pkg == "fw/table" && (id.Name == "copyNextHops" || id.Name == "snapshot") {
							// the copy reads table storage: it is a copy of a consistent
							// state only if it is made while the lock is still held
							h := held[cl.Parent()][cl]
							if h["R:FIB"] || h["R:RibTable.mutex"] {
								continue
							}
							bad = "copied by " + id.Name + " after the table lock was released (lockset " + h.String() + ")"
							continue
						}
						if cal := cl.Call.StaticCallee(); cal != nil && cal.Blocks != nil && cal.Pkg == fn.Pkg && cal != fn && depth < 3 && len(l.Via) == 0 {
							b2, n2 := leavesOf(cal, depth+1)
							if b2 != "" {
								bad = b2 + " (handed up by " + core.FuncName(cal) + ")"
							}
							if n2 > 0 {
								continue
							}
						}
					}
				}
				// immutable-by-convention: a name slice (never updated in place)
				if strings.HasSuffix(strings.Join(l.Via, ""), ".strategy") || strings.HasSuffix(strings.Join(l.Via, ""), ".name") {
					continue
				}
				bad = l.Desc()
			}
		})
		return bad, n
	}
	checkReturn := func(fn *ssa.Function, what string) {
		bad, n := leavesOf(fn, 0)
		c.Decide(bad == "" && n > 0, "R16.2", "returns-no-table-storage:"+what, p.Pos(fn.Pos()), "every returned value is allocated in the call (a copy) or an immutable name", what+" returns table storage ("+bad+") that the table keeps updating under its lock after the caller's read lock is gone: torn / racing reads in forwarding threads and management")
	}
	for _, t := range impls {
		for _, m := range []string{"FindNextHopsEnc", "FindStrategyEnc", "GetAllFIBEntries", "GetAllForwardingStrategies"} {
			if fn := p.MethodOf(t, m); fn != nil && fn.Blocks != nil {
				checkReturn(fn, t.Obj().Name()+"."+m)
			}
		}
	}
	if fn := p.Func("fw/table", "RibTable", "GetAllEntries"); fn != nil {
		checkReturn(fn, "RibTable.GetAllEntries")
	}
	// the copy helpers read table storage: a copy is a copy of one consistent state only
	// when it is made with the table's lock held — wherever the call sits (a lookup split
	// into a locked walk that hands up the live list and a copy made by the caller after
	// the walk has returned, and released the lock, copies a list that an update is
	// shifting in place)
	nCopy := 0
	for _, fn := range p.FuncsIn(pkg) {
		if strings.HasSuffix(p.File(fn.Pos()), "_test.go") {
			continue
		}
		core.Instrs(fn, func(in ssa.Instruction) {
			cl, ok := in.(*ssa.Call)
			if !ok {
				return
			}
			id, ok := core.Callee(&cl.Call)
			if !ok || id.Pkg != "fw/table" || (id.Name != "copyNextHops" && id.Name != "snapshot") {
				return
			}
			src, args := core.CallArgs(&cl.Call)
			if src == nil && len(args) > 0 {
				src = args[0]
			}
			if src != nil {
				switch core.Strip(src).(type) {
				case *ssa.MakeSlice, *ssa.Alloc:
					return // a list built in this call
				}
			}
			nCopy++
			h := held[fn][in]
			okHeld := false
			for k := range h {
				if strings.HasSuffix(k, ":FIB") || strings.HasSuffix(k, ":RibTable.mutex") {
					okHeld = true
				}
			}
			c.Decide(okHeld, "R16.2", "copy-made-under-the-table-lock:"+core.FuncName(fn)+":"+id.Name, c.Pos(in), "the copy is made with the table's lock held ("+h.String()+")", core.FuncName(fn)+" copies table storage with "+id.Name+" while no table lock is held (lockset "+h.String()+"): the list it reads is shifted / rewritten in place by an update under the write lock — a lookup can return a face twice, miss one, or a torn entry")
		})
	}
	c.Floor("R16.2", "calls of the copy helpers in fw/table", nCopy, 3)
	// helpers really copy
	if fn := c.Fn("R16.2", "fw/table", "", "copyNextHops"); fn != nil {
		okCopy := false
		core.Instrs(fn, func(in ssa.Instruction) {
			if st, ok := in.(*ssa.Store); ok {
				if _, isIdx := st.Addr.(*ssa.IndexAddr); isIdx {
					_, fresh := core.Strip(st.Val).(*ssa.Alloc)
					okCopy = fresh
				}
			}
		})
		c.Decide(okCopy, "R16.2", "copyNextHops-copies-entries", p.Pos(fn.Pos()), "each element is a newly allocated copy", "copyNextHops stores the table's own entry pointers into the result")
	}
	// names are never updated in place
	inPlace := ""
	for _, fn := range p.FuncsIn(pkg) {
		core.Instrs(fn, func(in ssa.Instruction) {
			st, ok := in.(*ssa.Store)
			if !ok {
				return
			}
			if ia, ok := st.Addr.(*ssa.IndexAddr); ok {
				if _, path := core.FieldPath(ia.X); len(path) > 0 && (path[len(path)-1] == "strategy" || path[len(path)-1] == "name") {
					inPlace = c.Pos(in)
				}
			}
		})
	}
	c.Decide(inPlace == "", "R16.2", "names-immutable", "-", "no element of an entry's name/strategy slice is stored to in place", "an entry's name/strategy slice is updated in place at "+inPlace+" although lookups hand that slice out")
	// nobody outside fw/table writes entry fields obtained from a table
	outside := ""
	for _, fn := range p.Funcs() {
		if fn.Pkg == nil || fn.Pkg.Pkg.Path() == pkg || !strings.HasPrefix(fn.Pkg.Pkg.Path(), core.ModPath+"/fw") {
			continue
		}
		core.Instrs(fn, func(in ssa.Instruction) {
			st, ok := in.(*ssa.Store)
			if !ok {
				return
			}
			fa, ok := st.Addr.(*ssa.FieldAddr)
			if !ok {
				return
			}
			t, _ := core.FieldAddrName(fa)
			tt, _ := core.Deref(fa.X.Type()).(*types.Named)
			if tt == nil || tt.Obj().Pkg() == nil || tt.Obj().Pkg().Path() != pkg {
				return
			}
			if (t == "FibNextHopEntry" || t == "Route") && !isFreshObject(fa.X) {
				outside = c.Pos(in)
			}
		})
	}
	c.Decide(outside == "", "R16.2", "no-foreign-writes-to-entries", "-", "no package outside fw/table writes a field of a next-hop or route entry it did not allocate", "code outside fw/table writes a table entry field at "+outside)

	// ---- R16.3 lock pairing and order
	nLocks := 0
	// (the tables' own locks, and the locks of the code that runs under them or beside them in
	// the same goroutines: the readvertiser is called with the RIB lock held, so a mutex it
	// keeps on an early return blocks the next route change for good while that one holds
	// the RIB lock)
	lockFns := append([]*ssa.Function{}, p.FuncsIn(pkg)...)
	for _, extra := range []string{"fw/mgmt", "fw/face", "fw/fw", "fw/dispatch"} {
		for _, f2 := range p.FuncsIn(core.ModPath + "/" + extra) {
			if !strings.HasSuffix(p.File(f2.Pos()), "_test.go") {
				lockFns = append(lockFns, f2)
			}
		}
	}
	for _, fn := range lockFns {
		core.Instrs(fn, func(in ssa.Instruction) {
			ci, ok := in.(*ssa.Call)
			if !ok {
				return
			}
			id, ok := core.Callee(&ci.Call)
			if !ok || id.Pkg != "sync" || (id.Name != "Lock" && id.Name != "RLock") {
				return
			}
			nLocks++
			recv, _ := core.CallArgs(&ci.Call)
			want := "Unlock"
			if id.Name == "RLock" {
				want = "RUnlock"
			}
			isRel := func(x ssa.Instruction) bool {
				c2, ok := x.(ssa.CallInstruction)
				if !ok {
					return false
				}
				id2, ok := core.Callee(c2.Common())
				if !ok || id2.Pkg != "sync" || id2.Name != want {
					return false
				}
				r2, _ := core.CallArgs(c2.Common())
				return core.Same(r2, recv)
			}
			// a helper that hands the lock to its caller together with the matching
			// release function ("defer t.locked()()"): every caller must call or defer
			// what it returns
			if core.AcquireSummary(fn) != nil && returnsRelease(fn, want, recv) {
				okUse := true
				nUse := 0
				for _, cs := range p.Callers(fn) {
					nUse++
					v := cs.Value()
					used := false
					if v != nil {
						for _, r := range core.Refs(v) {
							if ci, ok := r.(ssa.CallInstruction); ok && ci.Common().Value == ssa.Value(v) {
								if _, isGo := r.(*ssa.Go); !isGo {
									used = true
								}
							}
						}
					}
					if !used {
						okUse = false
					}
				}
				c.Decide(okUse && nUse > 0, "R16.3", fmt.Sprintf("lock-released:%s:%s", core.FuncName(fn), id.Name), c.Pos(in), "the lock is handed to the caller with its release function, which every caller calls or defers", core.FuncName(fn)+" returns with the table lock held and a caller drops the release function it returns: every later operation on the table deadlocks")
				return
			}
			// explicit release on all paths, or a deferred release registered on all paths
			okRel := core.MustFollowDeep(fn, core.After(in), isRel, nil).OK
			if !okRel {
				core.Instrs(fn, func(x ssa.Instruction) {
					d, isD := x.(*ssa.Defer)
					if !isD || !isRel(d) {
						return
					}
					all := true
					core.Instrs(fn, func(r ssa.Instruction) {
						if _, isRet := r.(*ssa.Return); isRet {
							if core.ReachInstrFrom(core.After(in), r, nil, func(y ssa.Instruction) bool { return y == x }) != nil {
								all = false
							}
						}
					})
					if all {
						okRel = true
					}
				})
			}
			c.Decide(okRel, "R16.3", fmt.Sprintf("lock-released:%s:%s", core.FuncName(fn), id.Name), c.Pos(in), id.Name+" is released on every exit", core.FuncName(fn)+" can return with the table lock still held ("+id.Name+" without "+want+" on some path): every later operation on the table deadlocks")
		})
	}
	c.Floor("R16.3", "Lock/RLock calls in fw/table", nLocks, 12)
	// no lock is taken again by the goroutine that holds it: sync.RWMutex is not
	// reentrant — Lock under Lock/RLock blocks at once, RLock under RLock blocks as soon as
	// a writer queues up between the two (every reader and writer of the table then hangs)
	acq := map[*ssa.Function]map[string]bool{}
	for _, fn := range p.FuncsIn(pkg) {
		core.Instrs(fn, func(in ssa.Instruction) {
			if _, isD := in.(*ssa.Defer); isD {
				return
			}
			if name, op := core.LockOp(in); op > 0 {
				if acq[fn] == nil {
					acq[fn] = map[string]bool{}
				}
				acq[fn][name] = true
			}
		})
	}
	for changed, iter := true, 0; changed && iter < 10; iter++ {
		changed = false
		for _, fn := range p.FuncsIn(pkg) {
			core.Instrs(fn, func(in ssa.Instruction) {
				ci, ok := in.(*ssa.Call)
				if !ok {
					return
				}
				cal := ci.Call.StaticCallee()
				if cal == nil || cal == fn || acq[cal] == nil {
					return
				}
				for k := range acq[cal] {
					if acq[fn] == nil {
						acq[fn] = map[string]bool{}
					}
					if !acq[fn][k] {
						acq[fn][k] = true
						changed = true
					}
				}
			})
		}
	}
	heldName := func(h core.LockSet, name string) bool {
		if h["R:"+name] {
			return true
		}
		a := core.LockAlias[name]
		return a != "" && h["R:"+a]
	}
	nAcqSites := 0
	for _, fn := range p.FuncsIn(pkg) {
		core.Instrs(fn, func(in ssa.Instruction) {
			ci, ok := in.(*ssa.Call)
			if !ok {
				return
			}
			h := held[fn][in]
			if name, op := core.LockOp(in); op > 0 {
				nAcqSites++
				if heldName(h, name) {
					c.Viol("R16.3", fmt.Sprintf("no-reacquire:%s:%s", core.FuncName(fn), name), c.Pos(in), core.FuncName(fn)+" takes "+name+" while it already holds it (lockset "+h.String()+"): sync.RWMutex is not reentrant, the table deadlocks")
				}
				return
			}
			cal := ci.Call.StaticCallee()
			if cal == nil || acq[cal] == nil {
				return
			}
			for name := range acq[cal] {
				nAcqSites++
				if heldName(h, name) {
					c.Viol("R16.3", fmt.Sprintf("no-reacquire:%s:%s:via=%s", core.FuncName(fn), name, core.FuncName(cal)), c.Pos(in), core.FuncName(fn)+" calls "+core.FuncName(cal)+", which takes "+name+", while it already holds that lock (lockset "+h.String()+"): sync.RWMutex is not reentrant — a writer queued between the two acquisitions blocks every reader and writer of the table for good")
				}
			}
		})
	}
	c.Ok("R16.3", "no-reacquire", "-", fmt.Sprintf("%d acquisition sites (lock calls and calls of functions that take a table lock) examined: none runs with the same lock already held", nAcqSites))
	c.Floor("R16.3", "acquisition sites", nAcqSites, 12)
	// lock order: functions of the FIB files never call into the RIB
	orderBad := ""
	for _, fn := range p.FuncsIn(pkg) {
		f := p.File(fn.Pos())
		if !strings.Contains(f, "fib-strategy") {
			continue
		}
		core.Instrs(fn, func(in ssa.Instruction) {
			if ci, ok := in.(ssa.CallInstruction); ok {
				if id, ok := core.Callee(ci.Common()); ok && id.Pkg == "fw/table" && (id.Recv == "RibTable" || id.Recv == "RibEntry") {
					orderBad = c.Pos(in)
				}
			}
		})
	}
	c.Decide(orderBad == "", "R16.3", "lock-order-rib-before-fib", "-", "FIB code never calls into the RIB (lock order RIB → FIB only)", "FIB code calls into the RIB at "+orderBad+" (RIB code calls the FIB while holding the RIB lock: opposite orders can deadlock)")
	_ = token.ADD

	// ---- R16.6 the state of a RIB readvertiser (its table of advertised routes) is touched
	// from the RIB's callbacks, which run on the management thread (register / unregister)
	// and on face goroutines (clean-up after a face is destroyed): every access holds the
	// readvertiser's own lock, or else every call of the callbacks is made with the RIB
	// lock held.
	{
		ribI := p.Named("fw/table", "RibReadvertise")
		nAcc := 0
		if ribI == nil {
			c.Und("R16.6", "anchor:RibReadvertise", "-", "interface not found")
		} else {
			// (b) are the callbacks always invoked under the RIB lock?
			underRib := true
			nInv := 0
			for _, fn := range p.FuncsIn(pkg) {
				core.Instrs(fn, func(in ssa.Instruction) {
					ci, ok := in.(ssa.CallInstruction)
					if !ok || !ci.Common().IsInvoke() {
						return
					}
					if nt, isN := ci.Common().Value.Type().(*types.Named); !isN || nt.Obj() != ribI.Obj() {
						return
					}
					nInv++
					h := held[fn][in]
					if !h["W:RibTable.mutex"] {
						underRib = false
					}
				})
			}
			for _, t := range p.Implementations(ribI) {
				tpkg := t.Obj().Pkg().Path()
				_, heldT := core.EntryLocks(p, tpkg)
				st, isSt := t.Underlying().(*types.Struct)
				if !isSt {
					continue
				}
				shared := map[string]bool{}
				for i := 0; i < st.NumFields(); i++ {
					switch st.Field(i).Type().Underlying().(type) {
					case *types.Map, *types.Slice:
						shared[st.Field(i).Name()] = true
					}
				}
				bad := ""
				for _, fn := range p.FuncsIn(tpkg) {
					if strings.HasSuffix(p.File(fn.Pos()), "_test.go") || strings.HasPrefix(fn.Name(), "New") {
						continue
					}
					core.Instrs(fn, func(in ssa.Instruction) {
						fa, ok := in.(*ssa.FieldAddr)
						if !ok {
							return
						}
						tn, fld := core.FieldAddrName(fa)
						if tn != t.Obj().Name() || !shared[fld] {
							return
						}
						nAcc++
						own := false
						for l := range heldT[fn][in] {
							if strings.Contains(l, ":"+tn+".") {
								own = true
							}
						}
						if !own && !(underRib && nInv > 0) {
							bad = tn + "." + fld + " in " + core.FuncName(fn) + " at " + c.Pos(in)
						}
					})
				}
				c.Decide(bad == "", "R16.6", "readvertiser-state-guarded:"+t.Obj().Name(), p.Pos(t.Obj().Pos()), "every access to the readvertiser's tables holds its own lock (or all callbacks run under the RIB lock)", "the readvertiser's table "+bad+" is accessed without the readvertiser's own lock, and the RIB does not make every callback with its lock held: rib/unregister on the management thread and the clean-up of a destroyed face on a face goroutine write the map at the same time (concurrent map writes crash the process)")
			}
			c.Floor("R16.6", "accesses to a readvertiser's tables", nAcc, 2)
		}
	}

	// ---- R16.5 no two locks of the forwarder (tables, face table, link services, management
	// readvertisers) are taken in opposite orders on two paths — calls through interfaces
	// and through callbacks stored in struct fields included
	{
		edges := core.LockOrder(p, []string{"fw/table", "fw/face", "fw/mgmt", "fw/fw", "fw/dispatch"})
		cycles := core.LockCycles(edges)
		c.Extra["lock_order_edges"] = len(edges)
		if len(cycles) == 0 {
			c.Ok("R16.5", "lock-order-acyclic", "-", fmt.Sprintf("%d lock-order edges across fw/…, no cycle", len(edges)))
		}
		for _, cy := range cycles {
			a, b := cy[0], cy[1]
			c.Viol("R16.5", "lock-order-acyclic:"+a.From+"<>"+a.To, c.Pos(a.At), fmt.Sprintf("%s is held at %s while %s can be acquired (via %s), and %s is held at %s while a path towards %s starts (via %s): two goroutines taking them in these orders deadlock", a.From, c.Pos(a.At), a.To, a.Via, b.From, c.Pos(b.At), a.From, b.Via))
		}
	}

	// ---- R16.4 a RIB change reaches the FIB as ONE update of the affected entry: a lookup
	// that overlaps it sees the old or the new next-hop set, never the empty or half-filled
	// one. The refresh of an entry must not be a ClearNextHopsEnc followed by separate
	// InsertNextHopEnc calls (each takes and releases the FIB lock on its own).
	{
		nRefresh := 0
		tornAt, tornFn := "", ""
		var nCl, nIns int
		for _, fn := range p.FuncsIn(pkg) {
			if strings.HasSuffix(p.File(fn.Pos()), "_test.go") || core.FuncID(core.RootOf(fn)).Recv != "RibEntry" || fn.Parent() != nil {
				continue
			}
			var clears, inserts []ssa.Instruction
			core.InstrsDeep(fn, func(in ssa.Instruction) {
				ci, ok := in.(ssa.CallInstruction)
				if !ok {
					return
				}
				id, ok := core.Callee(ci.Common())
				if !ok || id.Recv != "FibStrategy" {
					return
				}
				switch id.Name {
				case "ClearNextHopsEnc":
					clears = append(clears, in)
				case "InsertNextHopEnc":
					inserts = append(inserts, in)
				}
			})
			if len(clears) == 0 || len(inserts) == 0 {
				continue
			}
			nRefresh++
			nCl += len(clears)
			nIns += len(inserts)
			for _, cl := range clears {
				for _, ins := range inserts {
					if core.ReachableAfterDeep(fn, cl, ins) {
						tornAt, tornFn = c.Pos(cl), core.FuncName(fn)
					}
				}
			}
		}
		c.Decide(tornAt == "", "R16.4", "rib-refresh-is-one-fib-update", tornAt, "the FIB entry is not emptied and refilled in separate critical sections", tornFn+" empties the FIB entry with ClearNextHopsEnc and then re-inserts the next hops one by one, each call taking the FIB lock on its own: a forwarding-thread lookup between two of them sees an empty or partially filled next-hop list and falls through to a shorter prefix (also past a capture route) — on every route change, even a re-registration of an identical route")
		_ = nRefresh
		c.Extra["rib_refresh_fib_calls"] = nCl + nIns
	}

	// ---- R16.7 face teardown never waits for itself: the only receiver of a channel field
	// makes no blocking send on it in what it runs itself (deferred Close included)
	{
		n := selfWait(c, "R16.7", []string{"fw/face", "fw/fw", "fw/mgmt", "fw/table", "fw/dispatch"}, "the goroutine waits for a receive only it could perform: the face is never removed from the face table, its routes and FIB next hops stay, and whoever closes it again blocks too")
		c.Floor("R16.7", "channel fields with a single receiving function in fw/", n, 1)
	}
	// ---- R16.11 nobody waits, with a table lock held, for a goroutine that needs that lock:
	// a blocking receive from a channel field made while a table mutex is held is a
	// deadlock when the function that closes (or sends on) that channel takes the same
	// mutex before it gets there — a timer function that locks the RIB to remove an expired
	// route, and a stopExpiration that waits for it under the RIB lock.
	{
		type closer struct {
			fn *ssa.Function
			at ssa.Instruction
		}
		closers := map[string][]closer{}
		fieldOfChan := func(v ssa.Value, fn *ssa.Function) string {
			v = core.Strip(v)
			if _, path := core.FieldPath(v); len(path) > 0 {
				return path[len(path)-1]
			}
			// a local (possibly a captured cell) that is also stored into a channel field
			var cell ssa.Value = v
			if u, ok := v.(*ssa.UnOp); ok && u.Op == token.MUL {
				cell = core.Strip(u.X)
			}
			if fv, ok := cell.(*ssa.FreeVar); ok && fn.Parent() != nil {
				for i, q := range fn.FreeVars {
					if q != fv {
						continue
					}
					core.Instrs(fn.Parent(), func(in ssa.Instruction) {
						if mc, okM := in.(*ssa.MakeClosure); okM && mc.Fn == ssa.Value(fn) && i < len(mc.Bindings) {
							cell = core.Strip(mc.Bindings[i])
						}
					})
				}
				fn = fn.Parent()
			}
			name := ""
			core.Instrs(fn, func(in ssa.Instruction) {
				st, ok := in.(*ssa.Store)
				if !ok {
					return
				}
				fa, ok := st.Addr.(*ssa.FieldAddr)
				if !ok {
					return
				}
				val := core.Strip(st.Val)
				if u, okU := val.(*ssa.UnOp); okU && u.Op == token.MUL {
					val = core.Strip(u.X)
				}
				if val == cell || core.Strip(st.Val) == cell {
					if _, isCh := st.Val.Type().Underlying().(*types.Chan); isCh {
						_, name = core.FieldAddrName(fa)
					}
				}
			})
			return name
		}
		var tableFns []*ssa.Function
		for _, fn := range p.FuncsIn(pkg) {
			if !strings.HasSuffix(p.File(fn.Pos()), "_test.go") && fn.Blocks != nil {
				tableFns = append(tableFns, fn)
			}
		}
		for _, fn := range tableFns {
			core.Instrs(fn, func(in ssa.Instruction) {
				var ch ssa.Value
				switch x := in.(type) {
				case *ssa.Send:
					ch = x.Chan
				case *ssa.Defer:
					if b, ok := x.Call.Value.(*ssa.Builtin); ok && b.Name() == "close" && len(x.Call.Args) == 1 {
						ch = x.Call.Args[0]
					}
				case *ssa.Call:
					if b, ok := x.Call.Value.(*ssa.Builtin); ok && b.Name() == "close" && len(x.Call.Args) == 1 {
						ch = x.Call.Args[0]
					}
				}
				if ch == nil {
					return
				}
				if f := fieldOfChan(ch, fn); f != "" {
					closers[f] = append(closers[f], closer{fn, in})
				}
			})
		}
		nWait, bad := 0, ""
		for _, fn := range tableFns {
			core.Instrs(fn, func(in ssa.Instruction) {
				u, ok := in.(*ssa.UnOp)
				if !ok || u.Op != token.ARROW {
					return
				}
				f := fieldOfChan(u.X, fn)
				if f == "" {
					return
				}
				h := held[fn][in]
				if len(h) == 0 {
					return
				}
				nWait++
				for _, cl := range closers[f] {
					for _, g := range core.Reach(core.RootOf(cl.fn)) {
						core.Instrs(g, func(x ssa.Instruction) {
							if name, op := core.LockOp(x); op > 0 {
								if h["W:"+name] || h["R:"+name] && op == 1 {
									bad = fmt.Sprintf("%s waits on %s at %s holding %s; %s, which closes it, locks %s at %s", core.FuncName(fn), f, c.Pos(in), h.String(), core.FuncName(cl.fn), name, c.Pos(x))
								}
							}
						})
					}
					// the closer itself (a function literal handed to a timer) is not in
					// the reach of its parent: look at its own body too
					core.Instrs(cl.fn, func(x ssa.Instruction) {
						if name, op := core.LockOp(x); op > 0 {
							if h["W:"+name] || h["R:"+name] && op == 1 {
								bad = fmt.Sprintf("%s waits on %s at %s holding %s; %s, which closes it, locks %s at %s", core.FuncName(fn), f, c.Pos(in), h.String(), core.FuncName(cl.fn), name, c.Pos(x))
							}
						}
					})
				}
			})
		}
		c.Decide(bad == "", "R16.11", "no-wait-under-a-lock-the-signaller-needs", "-", fmt.Sprintf("%d blocking receives from a channel field with a table lock held, none waits for a function that takes that lock", nWait), "deadlock: "+bad+" — the waiter never gets its signal, and every later command that needs the lock blocks behind it")
	}
	// ---- R16.12 (shared with C17 R17.10) "final tables equal some sequential order": a
	// command that names a face and the teardown of that face are ordered by the table the
	// handlers look the face up in — they find it only while its clean-up has not happened
	// yet (the face leaves that table BEFORE its routes and next hops are cleaned up), and
	// look it up again after the insertion
	c.Import(C17, "R16.12", "a management command racing with the teardown of the face it names can leave a route or next hop on the dead face: the handlers look the face up in a table that the face leaves only after its clean-up (or do not look again after the insertion)", 2, func(k string) bool {
		return strings.HasPrefix(k, "R17.10:route-face-rechecked-after-insertion") || strings.HasPrefix(k, "R17.10:nexthop-face-rechecked-after-insertion") || strings.HasPrefix(k, "R17.10:route-face-exists")
	})
	// ---- R16.13 "face teardown … without data races": what decides the teardown of an idle
	// face — transportBase.ExpirationPeriod(), called by the face table's expiration handler
	// (its own goroutine) and by management — reads fields that the face's send and receive
	// goroutines, or a management command, write while the face runs. Each such field is a
	// sync/atomic value (or every access holds a lock): a field that ExpirationPeriod reads
	// and that some function other than a constructor writes — directly, or through the
	// pointer it holds — is not a plain one.
	if ep := p.Func("fw/face", "transportBase", "ExpirationPeriod"); ep != nil {
		read := map[string]*ssa.FieldAddr{}
		core.InstrsDeep(ep, func(in ssa.Instruction) {
			if fa, ok := in.(*ssa.FieldAddr); ok {
				if t, f := core.FieldAddrName(fa); t == "transportBase" {
					read[f] = fa
				}
			}
		})
		isCtor := func(fn *ssa.Function) bool {
			n := core.FuncName(core.RootOf(fn))
			i := strings.LastIndexByte(n, '.')
			b := n[i+1:]
			return fn.Parent() == nil && (strings.HasPrefix(b, "Make") || strings.HasPrefix(b, "Accept") || strings.HasPrefix(b, "New") || strings.HasPrefix(b, "make"))
		}
		var fields []string
		for f := range read {
			fields = append(fields, f)
		}
		sort.Strings(fields)
		nF := 0
		for _, f := range fields {
			fa := read[f]
			ft := core.Deref(fa.Type())
			if nt, isN := ft.(*types.Named); isN && nt.Obj().Pkg() != nil && nt.Obj().Pkg().Path() == "sync/atomic" {
				nF++
				c.Ok("R16.13", "expiry-input-is-synchronised:"+f, p.Pos(ep.Pos()), "a sync/atomic value")
				continue
			}
			writer := ""
			for _, fn := range p.FuncsIn(core.ModPath + "/fw/face") {
				if strings.HasSuffix(p.File(fn.Pos()), "_test.go") || isCtor(fn) {
					continue
				}
				core.Instrs(fn, func(in ssa.Instruction) {
					st, ok := in.(*ssa.Store)
					if !ok {
						return
					}
					// a store to the field, or through the pointer the field holds
					if a, isFA := st.Addr.(*ssa.FieldAddr); isFA {
						if t, g := core.FieldAddrName(a); t == "transportBase" && g == f {
							writer = core.FuncName(fn)
						}
					}
					if u, isU := core.Strip(st.Addr).(*ssa.UnOp); isU && u.Op == token.MUL {
						if a, isFA := u.X.(*ssa.FieldAddr); isFA {
							if t, g := core.FieldAddrName(a); t == "transportBase" && g == f {
								writer = core.FuncName(fn)
							}
						}
					}
				})
			}
			if writer == "" {
				continue // written by constructors only: published before the face runs
			}
			nF++
			c.Viol("R16.13", "expiry-input-is-synchronised:"+f, p.Pos(ep.Pos()), "transportBase."+f+" is read by ExpirationPeriod — from the face table's expiration handler and from management — and written by "+writer+" while the face runs, with no lock and no atomic: a data race on what decides the teardown of the face (go test -race reports the pair)")
		}
		c.Floor("R16.13", "fields read by ExpirationPeriod that are written while the face runs", nF, 1)
	}
	// ---- R16.9 removing a face from the RIB publishes no intermediate RIB: the forwarding
	// threads look the FIB up without the RIB mutex, so a walk that removes the face's routes
	// node by node and refreshes each node's FIB entry on the way publishes next-hop sets
	// computed from a RIB in which longer prefixes have lost the face's (capture) routes while
	// shorter ones still hold its inheritable routes — the dying face appears as a new next
	// hop of names it never served. The function that removes the routes over the tree (it
	// stores RibEntry.routes and recurses into the children) does not refresh the FIB itself.
	{
		nWalk := 0
		for _, fn := range p.FuncsIn(core.ModPath + "/fw/table") {
			if strings.HasSuffix(p.File(fn.Pos()), "_test.go") || fn.Signature.Recv() == nil {
				continue
			}
			if n, ok := core.Deref(fn.Signature.Recv().Type()).(*types.Named); !ok || n.Obj().Name() != "RibEntry" {
				continue
			}
			storesRoutes, recurses, hasFace := false, false, false
			for _, pr := range fn.Params[1:] {
				if bt, ok := pr.Type().Underlying().(*types.Basic); ok && bt.Kind() == types.Uint64 {
					hasFace = true
				}
			}
			var refresh ssa.Instruction
			core.Instrs(fn, func(in ssa.Instruction) {
				if _, _, ok := storeToField(in, "RibEntry", "routes"); ok {
					storesRoutes = true
				}
				if ci, ok := in.(ssa.CallInstruction); ok {
					if ci.Common().StaticCallee() == fn {
						recurses = true
					}
					if _, ok := core.IsCall(in, core.CalleeID{Pkg: "fw/table", Recv: "RibEntry", Name: "updateNexthopsEnc"}); ok {
						refresh = in
					}
				}
			})
			if !(storesRoutes && recurses && hasFace) {
				continue
			}
			nWalk++
			c.Funcs[core.FuncName(fn)] = true
			at := p.Pos(fn.Pos())
			if refresh != nil {
				at = c.Pos(refresh)
			}
			c.Decide(refresh == nil, "R16.9", "face-removal-publishes-no-intermediate-rib:"+core.FuncName(fn), at, "the walk that removes a face's routes over the RIB does not write the FIB; the refresh follows when all routes are gone", core.FuncName(fn)+" removes the routes of a face node by node and refreshes the FIB entry of each node on the way: a lookup between two of those FIB writes (the forwarding threads do not take the RIB mutex) returns next hops flattened from a RIB that never existed — once a capture route of the face is gone, its inheritable routes on shorter prefixes, not yet removed, make the dying face a new next hop of the names below")
		}
		c.Floor("R16.9", "walks that remove a face's routes over the RIB", nWalk, 1)
	}
	// ---- R16.10 a removed face is gone from the face table before its routes are cleaned. The
	// command handlers (rib/register, fib/add-nexthop) insert first and look the face up again
	// afterwards, withdrawing what they inserted when it is gone: that closes the race with
	// face removal only if the removal deletes the face from the face table BEFORE it cleans
	// the RIB and the FIB — in the other order a registration that falls between the clean-up
	// and the deletion finds the face, keeps its route, and nothing ever removes it.
	if rm := c.Fn("R16.10", "fw/face", "Table", "Remove"); rm != nil {
		isDel := func(x ssa.Instruction) bool {
			ci, ok := x.(ssa.CallInstruction)
			if !ok {
				return false
			}
			if b, isB := ci.Common().Value.(*ssa.Builtin); isB && b.Name() == "delete" && len(ci.Common().Args) == 2 {
				_, path := core.FieldPath(ci.Common().Args[0])
				return len(path) > 0 && path[len(path)-1] == "faces"
			}
			if cal := ci.Common().StaticCallee(); cal != nil && cal.Name() == "Delete" && len(ci.Common().Args) > 0 {
				if fa, isFA := ci.Common().Args[0].(*ssa.FieldAddr); isFA {
					_, fld := core.FieldAddrName(fa)
					return fld == "faces"
				}
			}
			return false
		}
		var cleans []ssa.CallInstruction
		for _, ci := range core.FindCallsDeep(rm, core.CalleeID{Pkg: "fw/table", Recv: "RibTable", Name: "CleanUpFace"}) {
			cleans = append(cleans, ci)
		}
		core.InstrsDeep(rm, func(in ssa.Instruction) {
			if ci, ok := in.(ssa.CallInstruction); ok {
				if cal := ci.Common().StaticCallee(); cal != nil && cal.Pkg != nil && strings.HasSuffix(cal.Pkg.Pkg.Path(), "/fw/face") && len(core.FindCallsDeep(cal, core.CalleeID{Pkg: "fw/table", Recv: "FibStrategy", Name: "RemoveNextHopEnc"})) > 0 {
					cleans = append(cleans, ci)
				}
			}
		})
		if len(cleans) == 0 {
			c.Und("R16.10", "face-deleted-before-cleanup", p.Pos(rm.Pos()), "face.Table.Remove no longer cleans the RIB / FIB")
		}
		bad := ""
		for _, cl := range cleans {
			if !core.PrecedesDeep(rm, cl, isDel) {
				bad = c.Pos(cl)
			}
		}
		if len(cleans) > 0 {
			c.Decide(bad == "", "R16.10", "face-deleted-before-cleanup", p.Pos(rm.Pos()), fmt.Sprintf("the face leaves the face table before each of the %d clean-up calls", len(cleans)), "face.Table.Remove cleans the routes / next hops of the face (at "+bad+") before it deletes the face from the face table: rib/register and fib/add-nexthop insert first and then look the face up again — a command that runs between the clean-up and the deletion still finds the face, keeps its route, and the route to the dead face stays for good (the final tables equal no sequential ordering of the two operations)")
		}
	}
	// ---- R16.8 a channel kept in a struct field is closed only if nobody else sends on it:
	// a send on a closed channel panics, and Close() of a face runs on another goroutine than
	// the senders (the component, the face's send goroutine, other faces' teardown through
	// the readvertiser)
	{
		nClosed := 0
		for _, pkg := range []string{"fw/face", "fw/fw", "fw/mgmt", "fw/table", "fw/dispatch"} {
			chanKey := func(ch ssa.Value) string {
				if _, path := core.FieldPath(ch); len(path) > 0 {
					if t := core.Deref(rootType(ch)); t != nil {
						return strings.TrimPrefix(t.String(), core.ModPath+"/") + "." + path[len(path)-1]
					}
				}
				return ""
			}
			closedIn := map[string]*ssa.Function{}
			closedAt := map[string]ssa.Instruction{}
			sends := map[string][]ssa.Instruction{}
			for _, fn := range p.FuncsIn(core.ModPath + "/" + pkg) {
				if strings.HasSuffix(p.File(fn.Pos()), "_test.go") {
					continue
				}
				core.Instrs(fn, func(in ssa.Instruction) {
					switch x := in.(type) {
					case *ssa.Call:
						if b, ok := x.Call.Value.(*ssa.Builtin); ok && b.Name() == "close" && len(x.Call.Args) == 1 {
							if k := chanKey(x.Call.Args[0]); k != "" {
								closedIn[k] = fn
								closedAt[k] = in
							}
						}
					case *ssa.Send:
						if k := chanKey(x.Chan); k != "" {
							sends[k] = append(sends[k], in)
						}
					case *ssa.Select:
						for _, st := range x.States {
							if st.Dir == types.SendOnly {
								if k := chanKey(st.Chan); k != "" {
									sends[k] = append(sends[k], in)
								}
							}
						}
					}
				})
			}
			var keys []string
			for k := range closedIn {
				keys = append(keys, k)
			}
			sort.Strings(keys)
			for _, k := range keys {
				nClosed++
				bad := ""
				for _, sd := range sends[k] {
					if sd.Parent() != closedIn[k] {
						bad = core.FuncName(sd.Parent()) + " at " + c.Pos(sd)
					}
				}
				c.Decide(bad == "", "R16.8", "closed-channel-has-no-foreign-sender:"+k, c.Pos(closedAt[k]), fmt.Sprintf("%d send(s) on the channel, all in the function that closes it", len(sends[k])), core.FuncName(closedIn[k])+" closes the channel "+k+" while "+bad+" sends on it from another function (another goroutine): a send after the close panics (send on closed channel) — tearing the face down crashes the process")
			}
		}
		c.Floor("R16.8", "channel fields closed in fw/", nClosed, 1)
	}
}

// isFreshObject: the object is allocated in the current function (new / composite literal).
func isFreshObject(v ssa.Value) bool {
	for i := 0; i < 4; i++ {
		v = core.Strip(v)
		switch x := v.(type) {
		case *ssa.Alloc:
			return true
		case *ssa.FieldAddr:
			v = x.X
			continue
		case *ssa.IndexAddr: // an element of a local array / freshly made slice (append's varargs)
			v = x.X
			continue
		case *ssa.MakeSlice:
			return true
		case *ssa.Phi:
			all := len(x.Edges) > 0
			for _, e := range x.Edges {
				if !isFreshObject(e) {
					all = false
				}
			}
			return all
		}
		return false
	}
	return false
}

// wholeStructAccess: in loads (`*p`) or stores (`*p = v`) a whole struct of a named type.
func wholeStructAccess(in ssa.Instruction) (typ string, addr ssa.Value, write, ok bool) {
	named := func(t types.Type) (string, bool) {
		pt, ok := t.Underlying().(*types.Pointer)
		if !ok {
			return "", false
		}
		n, ok := pt.Elem().(*types.Named)
		if !ok {
			return "", false
		}
		if _, ok := n.Underlying().(*types.Struct); !ok {
			return "", false
		}
		return n.Obj().Name(), true
	}
	switch x := in.(type) {
	case *ssa.UnOp:
		if x.Op != token.MUL {
			return
		}
		if t, ok := named(x.X.Type()); ok {
			return t, x.X, false, true
		}
	case *ssa.Store:
		if t, ok := named(x.Addr.Type()); ok {
			return t, x.Addr, true, true
		}
	}
	return
}

// c16StructLocks: the locks guarding the fields of struct type t (nil: not a guarded type).
func c16StructLocks(t string) []string {
	var ks []string
	for k := range c16Guards {
		if strings.HasPrefix(k, t+".") {
			ks = append(ks, k)
		}
	}
	if len(ks) == 0 {
		return nil
	}
	sort.Strings(ks)
	return c16Guards[ks[0]]
}

// returnsRelease: every return of fn yields the bound method `want` (Unlock / RUnlock)
// of the mutex recv.
func returnsRelease(fn *ssa.Function, want string, recv ssa.Value) bool {
	n, ok := 0, true
	core.Instrs(fn, func(in ssa.Instruction) {
		r, isR := in.(*ssa.Return)
		if !isR || in.Block() == fn.Recover {
			return
		}
		n++
		if len(r.Results) != 1 {
			ok = false
			return
		}
		mc, isMC := core.Strip(r.Results[0]).(*ssa.MakeClosure)
		if !isMC || len(mc.Bindings) != 1 || !core.Same(mc.Bindings[0], recv) {
			ok = false
			return
		}
		f := mc.Fn.(*ssa.Function)
		if !strings.HasPrefix(f.Synthetic, "bound method wrapper") || !strings.Contains(f.Name(), want) {
			ok = false
		}
	})
	return ok && n > 0
}

// selfWait — a function that is the only receiver of a channel kept in a struct field
// never makes a blocking send on that channel in anything it runs synchronously (static
// calls, deferred calls, closures it calls): once the buffer is full the goroutine waits
// for a receive that only it could perform. This is how a deferred Close() that notifies
// the receive loop's own wake-up channel hangs the teardown of a face for ever.
func selfWait(c *core.Ctx, rule string, pkgs []string, why string) int {
	p := c.P
	nRecv := 0
	for _, pkg := range pkgs {
		var fns []*ssa.Function
		for _, f := range p.FuncsIn(core.ModPath + "/" + pkg) {
			if !strings.HasSuffix(p.File(f.Pos()), "_test.go") && f.Blocks != nil {
				fns = append(fns, f)
			}
		}
		chanField := func(ch ssa.Value) string {
			if _, path := core.FieldPath(ch); len(path) > 0 {
				if t := core.Deref(rootType(ch)); t != nil {
					return strings.TrimPrefix(t.String(), core.ModPath+"/") + "." + path[len(path)-1]
				}
				return path[len(path)-1]
			}
			return ""
		}
		// receivers of each channel field; an anonymous function counts for the function
		// that contains it only when that function calls it itself (not `go`, not stored)
		recvBy := map[string]map[*ssa.Function]bool{}
		for _, f := range fns {
			core.Instrs(f, func(in ssa.Instruction) {
				var chs []ssa.Value
				switch x := in.(type) {
				case *ssa.UnOp:
					if x.Op == token.ARROW {
						chs = append(chs, x.X)
					}
				case *ssa.Select:
					for _, st := range x.States {
						if st.Dir == types.RecvOnly {
							chs = append(chs, st.Chan)
						}
					}
				case *ssa.Range:
					if _, isCh := x.X.Type().Underlying().(*types.Chan); isCh {
						chs = append(chs, x.X)
					}
				}
				for _, ch := range chs {
					if k := chanField(ch); k != "" {
						if recvBy[k] == nil {
							recvBy[k] = map[*ssa.Function]bool{}
						}
						recvBy[k][f] = true
					}
				}
			})
		}
		var keys []string
		for k := range recvBy {
			keys = append(keys, k)
		}
		sort.Strings(keys)
		for _, k := range keys {
			if len(recvBy[k]) != 1 {
				continue
			}
			var fn *ssa.Function
			for f := range recvBy[k] {
				fn = f
			}
			nRecv++
			c.Funcs[core.FuncName(fn)] = true
			reach := map[*ssa.Function]bool{fn: true}
			via := map[*ssa.Function]*ssa.Function{}
			work := []*ssa.Function{fn}
			for len(work) > 0 {
				g := work[len(work)-1]
				work = work[:len(work)-1]
				core.Instrs(g, func(in ssa.Instruction) {
					var cc *ssa.CallCommon
					switch x := in.(type) {
					case *ssa.Call:
						cc = &x.Call
					case *ssa.Defer:
						cc = &x.Call
					}
					if cc == nil {
						return
					}
					cal := cc.StaticCallee()
					if cal == nil || cal.Blocks == nil || cal.Pkg == nil || !strings.HasPrefix(cal.Pkg.Pkg.Path(), core.ModPath) || reach[cal] {
						return
					}
					reach[cal] = true
					via[cal] = g
					work = append(work, cal)
				})
			}
			bad := ""
			var rs []*ssa.Function
			for g := range reach {
				rs = append(rs, g)
			}
			sort.Slice(rs, func(i, j int) bool { return core.FuncName(rs[i]) < core.FuncName(rs[j]) })
			for _, g := range rs {
				core.Instrs(g, func(in ssa.Instruction) {
					var ch ssa.Value
					switch x := in.(type) {
					case *ssa.Send:
						ch = x.Chan
					case *ssa.Select:
						if x.Blocking {
							for _, st := range x.States {
								if st.Dir == types.SendOnly && chanField(st.Chan) == k && len(x.States) == 1 {
									ch = st.Chan
								}
							}
						}
					}
					if ch == nil || chanField(ch) != k {
						return
					}
					chain := core.FuncName(g)
					for h := via[g]; h != nil; h = via[h] {
						chain = core.FuncName(h) + " → " + chain
					}
					bad = fmt.Sprintf("%s sends on it at %s (%s)", core.FuncName(g), c.Pos(in), chain)
				})
			}
			c.Decide(bad == "", rule, "only-receiver-does-not-wait-for-itself:"+k, p.Pos(fn.Pos()), fmt.Sprintf("%s is the only receiver of %s; no blocking send on it in the %d functions it runs synchronously", core.FuncName(fn), k, len(reach)), core.FuncName(fn)+" is the only receiver of the channel "+k+" and makes a blocking send on it in what it runs itself: "+bad+" — "+why)
		}
	}
	return nRecv
}

func rootType(v ssa.Value) types.Type {
	root, _ := core.FieldPath(v)
	if root == nil {
		return nil
	}
	return root.Type()
}
