package props

import (
	"fmt"
	"go/token"
	"go/types"
	"strings"

	"ndndcheck/core"

	"golang.org/x/tools/go/ssa"
)

// mutators are the calls through which a management handler changes forwarder state.
var mgmtMutators = []core.CalleeID{
	{Pkg: "fw/table", Recv: "RibTable", Name: "AddEncRoute"},
	{Pkg: "fw/table", Recv: "RibTable", Name: "RemoveRouteEnc"},
	{Pkg: "fw/table", Recv: "FibStrategy", Name: "InsertNextHopEnc"},
	{Pkg: "fw/table", Recv: "FibStrategy", Name: "RemoveNextHopEnc"},
	{Pkg: "fw/table", Recv: "FibStrategy", Name: "SetStrategyEnc"},
	{Pkg: "fw/table", Recv: "FibStrategy", Name: "UnSetStrategyEnc"},
	{Pkg: "fw/table", Name: "SetCsCapacity"},
	{Pkg: "fw/face", Recv: "*", Name: "SetMTU"},
	{Pkg: "fw/face", Recv: "*", Name: "SetPersistency"},
	{Pkg: "fw/face", Recv: "*", Name: "SetOptions"},
	{Pkg: "fw/face", Recv: "*", Name: "Close"},
	{Pkg: "fw/face", Recv: "Table", Name: "Remove"},
}

// C17 — Management commands are authorised, act as specified; bad ones refused safely.
func C17(c *core.Ctx) {
	c.Explain = "Dataset contents and the exact table effect of each accepted command over histories are NOT decided. Decided structural necessary conditions: (R17.1) in mgmt.Thread.Run the module dispatch is reachable only when the command name has at least prefix+2 components and lies under the local or link-local management prefix, and every Module implementation except the RIB module (the property's own exception) performs no action unless localPrefix.IsPrefix(name); (R17.2) in every command handler each table/face mutator call is reachable only when the name is long enough to carry parameters, the parameters decoded, and every optional parameter that is dereferenced was found present; each mutator is followed on all exits by a response whose status is the constant 200 and every response sent on a path without a mutation carries a constant ≥ 400; the defaults (requesting face, application origin, cost 0, child-inherit) are what the nil branches supply; (R17.3) decoded parameter values reach an index, an int conversion used as a size, or an MTU only behind a dominating bound: Strategy.Name[len(prefix)] needs len > len(prefix), SetMTU needs a lower bound, SetCsCapacity an upper bound before the int conversion, and the optional top-level element of a decoded message is nil-checked before its fields are read."
	c.RuleText = "instances: Module implementations (discovered), every method of package fw/mgmt with the handler signature that calls a mutator (discovered), every sendResponse call, parameter dereferences, index operations on parameter-derived values. Non-trivial = has a branch edge or path to decide."
	p := c.P
	pkg := core.ModPath + "/fw/mgmt"

	// ---- R17.1
	if run := c.Fn("R17.1", "fw/mgmt", "Thread", "Run"); run != nil {
		var disp []ssa.Instruction
		for _, ci := range core.FindCallsDeep(run, core.CalleeID{Pkg: "fw/mgmt", Recv: "Module", Name: "handleIncomingInterest"}) {
			disp = append(disp, ci)
		}
		c.Floor("R17.1", "module dispatch sites", len(disp), 1)
		tooShort := &core.Atom{Name: "len(name)<len(prefix)+2", Match: func(cond ssa.Value) (int, int) {
			op, x, y, ok := core.CmpOrient(cond, core.IsLen)
			if !ok {
				return 0, 0
			}
			l, isLen := core.LenOf(x)
			if !isLen {
				return 0, 0
			}
			if _, okF := core.FieldOf(l, "NameV"); !okF {
				return 0, 0
			}
			b, isB := core.StripConv(y).(*ssa.BinOp)
			if !isB || b.Op != token.ADD {
				return 0, 0
			}
			k, isC := core.ConstInt(b.Y)
			pl, isL := core.LenOf(b.X)
			if !isC || !isL {
				return 0, 0
			}
			if _, okP := core.FieldOf(pl, "localPrefix"); !okP {
				return 0, 0
			}
			switch {
			case op == token.LSS && k >= 2, op == token.LEQ && k >= 1:
				return 1, -1
			case op == token.GEQ && k >= 2, op == token.GTR && k >= 1:
				return -1, 1
			}
			return 0, 0
		}}
		isPrefixOf := func(field string) *core.Atom {
			return atomCallTrue(field+".IsPrefix(name)", func(cl *ssa.Call) bool {
				cc, ok := core.IsCall(cl, core.CalleeID{Pkg: "std/encoding", Recv: "Name", Name: "IsPrefix"})
				if !ok {
					return false
				}
				r, _ := core.CallArgs(cc)
				_, okF := core.FieldOf(r, field)
				return okF
			})
		}
		g1 := core.GateDeep(run, disp, neg(tooShort))
		g2 := core.GateDeep(run, disp, pos(isPrefixOf("localPrefix")), pos(isPrefixOf("nonLocalPrefix")))
		c.Decide(g1.OK && g1.PassEdges > 0, "R17.1", "dispatch-needs-module-and-verb", p.Pos(run.Pos()), "dispatch unreachable for names shorter than prefix+2", "a management Interest with fewer than prefix+2 name components reaches module dispatch (indexing the module/verb component panics)")
		c.Decide(g2.OK && g2.PerLit[0] > 0, "R17.1", "dispatch-needs-management-prefix", p.Pos(run.Pos()), "dispatch reachable only under localPrefix or nonLocalPrefix", "a management Interest outside /localhost/nfd and /localhop/nfd reaches module dispatch")
		// decode error gate
		okDec := &core.Atom{Name: "ReadPacket err==nil", Match: func(cond ssa.Value) (int, int) {
			op, x, y, ok := core.Cmp(cond)
			if ok && (op == token.EQL || op == token.NEQ) && core.IsNilConst(y) {
				if e, isE := core.Strip(x).(*ssa.Extract); isE && e.Index == 2 && isCallTo(e.Tuple, core.CalleeID{Pkg: "std/ndn/spec_2022", Name: "ReadPacket"}) {
					return core.Iff(op == token.EQL)
				}
			}
			return 0, 0
		}}
		g3 := core.GateDeep(run, disp, pos(okDec))
		c.Decide(g3.OK && g3.PassEdges > 0, "R17.1", "dispatch-needs-decoded-packet", p.Pos(run.Pos()), "dispatch only after a successful decode", "a packet that failed to decode reaches module dispatch")
	}
	modI := p.Named("fw/mgmt", "Module")
	var modules []*types.Named
	if modI != nil {
		modules = p.Implementations(modI)
	}
	c.Floor("R17.1", "Module implementations", len(modules), 6)
	ribException := map[string]string{"RIBModule": "the property itself allows RIB commands under the link-local prefix (prefix registration from remote hosts)"}
	for _, t := range modules {
		tn := t.Obj().Name()
		fn := p.MethodOf(t, "handleIncomingInterest")
		if fn == nil || fn.Blocks == nil {
			continue
		}
		c.Funcs[core.FuncName(fn)] = true
		if why, ok := ribException[tn]; ok {
			c.Ok("R17.1", "module-local-only:"+tn, p.Pos(fn.Pos()), "frozen exception: "+why)
			continue
		}
		var eff []ssa.Instruction
		core.Instrs(fn, func(in ssa.Instruction) {
			ci, ok := in.(ssa.CallInstruction)
			if !ok {
				return
			}
			id, ok := core.Callee(ci.Common())
			if !ok {
				return
			}
			if id.Pkg == "fw/mgmt" && id.Name != "String" && id.Name != "getManager" && id.Name != "prefixLength" && id.Name != "makeControlResponse" {
				eff = append(eff, in)
			}
		})
		local := atomCallTrue("localPrefix.IsPrefix(name)", func(cl *ssa.Call) bool {
			cc, ok := core.IsCall(cl, core.CalleeID{Pkg: "std/encoding", Recv: "Name", Name: "IsPrefix"})
			if !ok {
				return false
			}
			r, _ := core.CallArgs(cc)
			_, okF := core.FieldOf(r, "localPrefix")
			return okF
		})
		g := core.GateDeep(fn, eff, pos(local))
		c.Decide(len(eff) > 0 && g.OK && g.PassEdges > 0, "R17.1", "module-local-only:"+tn, p.Pos(fn.Pos()), fmt.Sprintf("%d verb dispatches reachable only under the local management prefix", len(eff)), tn+".handleIncomingInterest acts on commands that did not arrive under the local management prefix (only local faces can use /localhost): a remote host can change forwarder state")
	}

	// ---- R17.2 handlers
	nHandlers, nMut := 0, 0
	for _, fn := range p.FuncsIn(pkg) {
		if fn.Parent() != nil || fn.Signature.Recv() == nil || len(fn.Params) != 4 || fn.Name() == "handleIncomingInterest" || fn.Name() == "sendResponse" {
			continue
		}
		if !strings.HasSuffix(fn.Params[1].Type().String(), "spec_2022.Interest") {
			continue
		}
		var muts []ssa.Instruction
		for _, ci := range core.FindCallsDeep(fn, mgmtMutators...) {
			muts = append(muts, ci)
		}
		if len(muts) == 0 {
			continue
		}
		nHandlers++
		nMut += len(muts)
		fname := core.FuncName(fn)
		c.Funcs[fname] = true
		interest := ssa.Value(fn.Params[1])
		tooShort := &core.Atom{Name: "len(name)<prefix+3", Match: func(cond ssa.Value) (int, int) {
			op, x, y, ok := core.CmpOrient(cond, core.IsLen)
			if !ok {
				return 0, 0
			}
			l, isLen := core.LenOf(x)
			if !isLen || !isFieldLoad(l, interest, "NameV") {
				return 0, 0
			}
			b, isB := core.StripConv(y).(*ssa.BinOp)
			if !isB || b.Op != token.ADD || !isCallTo(b.X, core.CalleeID{Pkg: "fw/mgmt", Recv: "Thread", Name: "prefixLength"}) {
				return 0, 0
			}
			k, isC := core.ConstInt(b.Y)
			if !isC {
				return 0, 0
			}
			switch {
			case op == token.LSS && k >= 3, op == token.LEQ && k >= 2:
				return 1, -1
			case op == token.GEQ && k >= 3, op == token.GTR && k >= 2:
				return -1, 1
			}
			return 0, 0
		}}
		var params ssa.Value
		for _, ci := range core.FindCallsDeep(fn, core.CalleeID{Pkg: "fw/mgmt", Name: "decodeControlParameters"}) {
			params = ci.Value()
		}
		g := core.GateDeep(fn, muts, neg(tooShort))
		c.Decide(g.OK && g.PassEdges > 0, "R17.2", "mutation-needs-parameters-component:"+fname, p.Pos(fn.Pos()), "mutators unreachable when the name cannot carry ControlParameters", fname+" can change state for a command name without a ControlParameters component (and indexes past the name)")
		if params == nil {
			c.Viol("R17.2", "mutation-needs-decoded-parameters:"+fname, p.Pos(fn.Pos()), fname+" mutates state without decoding ControlParameters")
			continue
		}
		pn := atomNonNil("params!=nil", params)
		g = core.GateDeep(fn, muts, pos(pn))
		c.Decide(g.OK && g.PassEdges > 0, "R17.2", "mutation-needs-decoded-parameters:"+fname, p.Pos(fn.Pos()), "mutators reachable only when ControlParameters decoded", fname+" can change state although the ControlParameters failed to decode")
		// every dereference of an optional parameter is behind its presence test
		nDeref, badDeref := 0, ""
		core.Instrs(fn, func(in ssa.Instruction) {
			var ptr ssa.Value
			switch x := in.(type) {
			case *ssa.UnOp:
				if x.Op == token.MUL {
					ptr = x.X
				}
			case *ssa.FieldAddr:
				ptr = x.X
			}
			if ptr == nil {
				return
			}
			u, ok := core.Strip(ptr).(*ssa.UnOp) // the pointer is itself loaded from params.<F>
			if !ok || u.Op != token.MUL {
				return
			}
			fa, ok := u.X.(*ssa.FieldAddr)
			if !ok || core.Strip(fa.X) != params {
				return
			}
			if _, isPtr := u.Type().Underlying().(*types.Pointer); !isPtr {
				return
			}
			_, f := core.FieldAddrName(fa)
			nDeref++
			a := atomFieldNonNil("params."+f+"!=nil", params, f)
			if g0 := core.GateDeep(fn, []ssa.Instruction{in}, pos(a)); f == "Mask" && !(g0.OK && g0.PassEdges > 0) {
				// frozen exception: Mask is read only inside 'if params.Flags != nil', after the
				// both-or-neither validation of Flags/Mask rejected the command through a boolean
				// flag (areParamsValid) that a path-insensitive gate cannot follow. Required
				// instead: the dereference is behind Flags != nil and a Mask presence test exists.
				gF := core.GateDeep(fn, []ssa.Instruction{in}, pos(atomFieldNonNil("params.Flags!=nil", params, "Flags")))
				if !(gF.OK && gF.PassEdges > 0) || len(core.EdgeFacts(fn, a)) == 0 {
					badDeref = "params.Mask at " + c.Pos(in)
				}
				return
			}
			if g := core.GateDeep(fn, []ssa.Instruction{in}, pos(a)); !(g.OK && g.PassEdges > 0) {
				badDeref = "params." + f + " at " + c.Pos(in)
			}
		})
		c.Decide(badDeref == "", "R17.2", "optional-parameter-presence:"+fname, p.Pos(fn.Pos()), fmt.Sprintf("%d dereferences of optional parameters are each behind their != nil test", nDeref), fname+" dereferences the optional parameter "+badDeref+" without having found it present: a command omitting it crashes the management thread")
		// required Name: a mutator that is given params.Name needs Name != nil
		for _, m := range muts {
			_, args := core.CallArgs(m.(ssa.CallInstruction).Common())
			for _, a := range args {
				if isFieldLoad(a, params, "Name") {
					gg := core.GateDeep(fn, []ssa.Instruction{m}, pos(atomFieldNonNil("params.Name!=nil", params, "Name")))
					c.Decide(gg.OK && gg.PassEdges > 0, "R17.2", "name-required:"+fname+":"+calleeName(m), c.Pos(m), "mutator reachable only with params.Name present", fname+" passes a missing Name (nil) to "+calleeName(m)+": a nil name addresses the root entry")
				}
			}
		}
		// responses
		type resp struct {
			call   ssa.Instruction
			status int64
			known  bool
		}
		var resps []resp
		for _, ci := range core.FindCallsDeep(fn, core.CalleeID{Pkg: "fw/mgmt", Recv: "Thread", Name: "sendResponse"}) {
			_, a := core.CallArgs(ci.Common())
			r := resp{call: ci}
			// response value: makeControlResponse(K, …) possibly through a phi/local
			sl := &core.Slicer{P: p}
			for _, l := range sl.Leaves(a[0]) {
				if cl, ok := l.Val.(*ssa.Call); ok {
					if _, ok := core.IsCall(cl, core.CalleeID{Pkg: "fw/mgmt", Name: "makeControlResponse"}); ok {
						if k, isC := core.ConstInt(cl.Call.Args[0]); isC {
							if r.known && r.status != k {
								r.status = -1
							} else {
								r.status, r.known = k, true
							}
						}
					}
				}
			}
			resps = append(resps, r)
		}
		// a response sent by a small helper with a status of its own (sendFaceGone(…): 410):
		// every call of that helper in the handler is a response with that status
		for _, r := range append([]resp{}, resps...) {
			h := r.call.Parent()
			if h == fn || h.Parent() != nil || !r.known {
				continue
			}
			nResp := 0
			for _, r2 := range resps {
				if r2.call.Parent() == h {
					nResp++
				}
			}
			if nResp != 1 {
				continue
			}
			for _, cs := range p.Callers(h) {
				inReach := false
				for _, g := range core.Reach(fn) {
					if cs.Parent() == g {
						inReach = true
					}
				}
				if inReach {
					resps = append(resps, resp{call: cs, status: r.status, known: true})
				}
			}
		}
		// state mutators: not the configuration of a transport that this very function
		// constructed and has not registered yet
		sl2 := &core.Slicer{P: p}
		var stateMuts []ssa.Instruction
		for _, m := range muts {
			recv, _ := core.CallArgs(m.(ssa.CallInstruction).Common())
			fresh := false
			for recv != nil {
				if fa, ok := core.Strip(recv).(*ssa.FieldAddr); ok { // promoted method on an embedded base
					recv = fa.X
					continue
				}
				break
			}
			if recv != nil {
				ls := sl2.Leaves(recv)
				fresh = len(ls) > 0
				for _, l := range ls {
					cl, ok := l.Val.(*ssa.Call)
					if !ok {
						fresh = false
						continue
					}
					id, _ := core.Callee(&cl.Call)
					if !(id.Pkg == "fw/face" && (strings.HasPrefix(id.Name, "Make") || strings.HasPrefix(id.Name, "New"))) {
						fresh = false
					}
				}
			}
			if !fresh {
				stateMuts = append(stateMuts, m)
			}
		}
		isOKResp := func(in ssa.Instruction) bool {
			for _, r := range resps {
				if r.call == in && r.known && r.status == 200 {
					return true
				}
			}
			return false
		}
		// a compensating call withdraws what the command installed (the face turned out
		// to be gone after the route was added): a refusal that follows it answers for an
		// unchanged table
		isUndo := func(in ssa.Instruction) bool {
			ci, ok := in.(ssa.CallInstruction)
			if !ok {
				return false
			}
			id, ok := core.Callee(ci.Common())
			if ok && id.Pkg == "fw/table" && id.Name == "RemoveNextHopEnc" {
				// the withdrawal of a next hop this same command installed before
				for _, ins := range core.FindCallsDeep(fn, core.CalleeID{Pkg: "fw/table", Recv: "*", Name: "InsertNextHopEnc"}) {
					if core.ReachableAfterDeep(fn, ins, in) {
						return true
					}
				}
				return false
			}
			return ok && id.Pkg == "fw/table" && (id.Name == "CleanUpFace" || id.Name == "RemoveRouteEnc")
		}
		undone := func(m, r ssa.Instruction) bool {
			return core.BetweenDeep(fn, m, r, isUndo)
		}
		okFollow := true
		for _, m := range stateMuts {
			// a later mutator of the same command may precede the response; an error
			// response after a mutation is a violation unless the mutation was withdrawn
			m := m
			if isUndo(m) {
				continue // a withdrawal is followed by the refusal it belongs to
			}
			isEnd := func(in ssa.Instruction) bool {
				if isOKResp(in) {
					return true
				}
				for _, r := range resps {
					if r.call == in && r.known && r.status >= 400 && undone(m, in) {
						return true
					}
				}
				return false
			}
			if fr := core.MustFollowDeep(fn, core.After(m), isEnd, nil); !fr.OK {
				okFollow = false
			}
		}
		c.Decide(okFollow, "R17.2", "mutation-then-200:"+fname, p.Pos(fn.Pos()), "every mutation is followed on all exits by a status-200 response", fname+" can change state without reporting status 200 (no response, or an error status after the change)")
		bad := ""
		for _, r := range resps {
			if !r.known || r.status == -1 {
				bad = "status not a single constant at " + c.Pos(r.call)
				continue
			}
			if r.status == 200 {
				// accepted (possibly with nothing to change)
			} else if r.status < 400 {
				bad = fmt.Sprintf("status %d at %s", r.status, c.Pos(r.call))
			} else {
				// refusal: no mutation may precede it on any path
				for _, m := range stateMuts {
					if isUndo(m) {
						continue
					}
					if core.ReachableFrom(core.After(m), r.call) && !undone(m, r.call) {
						bad = fmt.Sprintf("status %d after a mutation at %s", r.status, c.Pos(r.call))
					}
				}
			}
		}
		// refusal edges (name too short, parameters undecodable) answer with a 4xx status
		isRefusal := func(in ssa.Instruction) bool {
			for _, r := range resps {
				if r.call == in && r.known && r.status >= 400 {
					return true
				}
			}
			return false
		}
		nRef := 0
		for _, f := range core.EdgeFacts(fn, tooShort, pn) {
			if (f.A == tooShort && f.Holds) || (f.A == pn && !f.Holds) {
				nRef++
				if !core.MustFollowDeep(fn, core.Point{Block: f.E.To, Idx: 0}, isRefusal, nil).OK {
					bad = "a malformed command (" + f.A.Name + " fails) is not answered with a 4xx status"
				}
			}
		}
		if nRef < 2 {
			bad = "missing refusal branches"
		}
		c.Decide(bad == "" && len(resps) > 0, "R17.2", "response-status-discipline:"+fname, p.Pos(fn.Pos()), fmt.Sprintf("%d responses: ≥400 only before any state change, malformed commands answered 4xx", len(resps)), fname+": "+bad+" — a refused command must answer 4xx and change nothing, an accepted one must answer 200")
	}
	c.Floor("R17.2", "mutating command handlers", nHandlers, 8)
	c.Extra["mutator_call_sites"] = nMut

	// defaults of rib/register
	if reg := c.Fn("R17.2", "fw/mgmt", "RIBModule", "register"); reg != nil {
		sl := &core.Slicer{P: p, Shared: true}
		for _, ci := range core.FindCallsDeep(reg, core.CalleeID{Pkg: "fw/table", Recv: "RibTable", Name: "AddEncRoute"}) {
			_, a := core.CallArgs(ci.Common())
			route := a[1]
			chk := func(field string, okLeaf func(core.Leaf) bool, what string) {
				al, isA := core.Strip(route).(*ssa.Alloc)
				if !isA {
					// the insertion may sit in a worker split off register: its route
					// parameter is the literal of the only call site
					al, isA = core.Resolve(route).(*ssa.Alloc)
				}
				if !isA {
					c.Und("R17.2", "register-default:"+field, c.Pos(ci), "route is not a local literal")
					return
				}
				var v ssa.Value
				for _, r := range core.Refs(al) {
					if fa, ok := r.(*ssa.FieldAddr); ok {
						if _, f := core.FieldAddrName(fa); f == field {
							for _, r2 := range core.Refs(fa) {
								if st, ok := r2.(*ssa.Store); ok {
									v = st.Val
								}
							}
						}
					}
				}
				if v == nil {
					c.Viol("R17.2", "register-default:"+field, c.Pos(ci), "route field "+field+" is never set")
					return
				}
				// the default is taken exactly when the parameter is absent: every phi edge
				// carrying the default constant is an edge asserting params.<F> == nil
				if pf, ok := map[string]string{"Origin": "Origin", "Cost": "Cost", "Flags": "Flags"}[field]; ok {
					if phi, isPhi := core.Strip(v).(*ssa.Phi); isPhi {
						var params ssa.Value
						for _, dc := range core.FindCallsDeep(reg, core.CalleeID{Pkg: "fw/mgmt", Name: "decodeControlParameters"}) {
							params = dc.Value()
						}
						absent := map[core.Edge]bool{}
						if params != nil {
							for _, f := range core.EdgeFacts(reg, atomFieldNonNil("params."+pf+"!=nil", params, pf)) {
								if !f.Holds {
									absent[f.E] = true
								}
							}
						}
						okOnlyAbsent := len(absent) > 0
						for i, e := range phi.Edges {
							if _, isC := core.ConstInt(e); isC && !absent[core.Edge{From: phi.Block().Preds[i], To: phi.Block()}] {
								okOnlyAbsent = false
							}
						}
						c.Decide(okOnlyAbsent, "R17.2", "register-default-only-when-absent:"+field, c.Pos(ci), "the default of "+field+" is used only on the edge asserting the parameter is absent", "rib/register replaces an explicitly given "+field+" by the default on some path (the default is taken although the parameter is present): the installed route differs from the one the command describes")
					}
				}
				ls := sl.Leaves(v)
				hasDefault := false
				for _, l := range ls {
					if okLeaf(l) {
						hasDefault = true
					}
				}
				c.Decide(hasDefault, "R17.2", "register-default:"+field, c.Pos(ci), field+" defaults to "+what+": "+core.LeafSet(ls), "rib/register does not default "+field+" to "+what+" when the parameter is absent: "+core.LeafSet(ls))
			}
			chk("FaceID", func(l core.Leaf) bool { return core.Same(l.Val, reg.Params[3]) }, "the requesting face")
			chk("Origin", func(l core.Leaf) bool { k, ok := core.ConstInt(l.Val); return ok && k == 0 }, "application origin (0)")
			chk("Cost", func(l core.Leaf) bool { k, ok := core.ConstInt(l.Val); return ok && k == 0 }, "0")
			chk("Flags", func(l core.Leaf) bool { k, ok := core.ConstInt(l.Val); return ok && k == 1 }, "child-inherit (1)")
		}
	}

	// a face named in the command is used only if it exists: the FaceId parameter reaches
	// the route / next hop that is installed only along paths that passed
	// FaceTable.Get(<that id>) != nil (the 410 refusal is taken otherwise)
	for _, h := range [][2]string{{"RIBModule", "register"}, {"FIBModule", "add"}} {
		fn := c.Fn("R17.2", "fw/mgmt", h[0], h[1])
		if fn == nil {
			continue
		}
		isNamedFace := func(v ssa.Value) bool {
			u, ok := core.Strip(v).(*ssa.UnOp)
			if !ok || u.Op != token.MUL {
				return false
			}
			_, okF := core.FieldOf(u.X, "FaceId")
			return okF
		}
		sl := &core.Slicer{P: p, Shared: true, Root: fn}
		exists := &core.Atom{Name: "FaceTable.Get(id)!=nil", Match: func(cond ssa.Value) (int, int) {
			op, x, y, ok := core.Cmp(cond)
			if !ok || (op != token.EQL && op != token.NEQ) || !core.IsNilConst(y) {
				return 0, 0
			}
			cl, isCall := core.Strip(x).(*ssa.Call)
			if !isCall {
				return 0, 0
			}
			if id, okID := core.Callee(&cl.Call); !okID || !isFaceLookup(c.P, id) {
				return 0, 0
			}
			_, a := core.CallArgs(&cl.Call)
			if len(a) != 1 {
				return 0, 0
			}
			named := false
			args := []ssa.Value{a[0]}
			// the test sits in a predicate shared by the handlers (faceExists(id) bool):
			// the id it looks up is what this handler passes to it
			if prm, isPrm := core.Strip(a[0]).(*ssa.Parameter); isPrm && prm.Parent() != fn {
				g := prm.Parent()
				idx := -1
				for i, q := range g.Params {
					if q == prm {
						idx = i
					}
				}
				for _, ci := range p.Callers(g) {
					inReach := false
					for _, r := range core.Reach(fn) {
						if ci.Parent() == r {
							inReach = true
						}
					}
					if !inReach || idx < 0 {
						continue
					}
					recv, as := core.CallArgs(ci.Common())
					all := as
					if g.Signature.Recv() != nil {
						all = append([]ssa.Value{recv}, as...)
					}
					if idx < len(all) {
						args = append(args, all[idx])
					}
				}
			}
			for _, av := range args {
				for _, l := range sl.Leaves(av) {
					if strings.HasSuffix(strings.Join(l.Via, ""), ".FaceId*") {
						named = true
					}
				}
			}
			if !named {
				return 0, 0
			}
			return core.Iff(op == token.NEQ)
		}}
		var uses []struct {
			at ssa.Instruction
			v  ssa.Value
		}
		for _, ci := range core.FindCallsDeep(fn, core.CalleeID{Pkg: "fw/table", Recv: "FibStrategy", Name: "InsertNextHopEnc"}) {
			_, a := core.CallArgs(ci.Common())
			if len(a) == 3 {
				uses = append(uses, struct {
					at ssa.Instruction
					v  ssa.Value
				}{ci, a[1]})
			}
		}
		core.InstrsDeep(fn, func(in ssa.Instruction) {
			if _, v, ok := storeToField(in, "Route", "FaceID"); ok {
				uses = append(uses, struct {
					at ssa.Instruction
					v  ssa.Value
				}{in, v})
			}
		})
		restore := core.WithRoot(fn)
		cut, per := core.CutEdgesDeep(fn, pos(exists))
		okAll, nUse := true, 0
		for _, u := range uses {
			if !core.FlowPath(u.v, u.at, isNamedFace, nil, nil) {
				continue
			}
			nUse++
			if core.FlowPath(u.v, u.at, isNamedFace, cut, nil) || per[0] == 0 {
				// (id, ok) handed up by a helper: the use sits behind ok == true, and every
				// return that hands up the named id returns the existence test as ok
				if !valueOkHelper(fn, u.at, u.v, isNamedFace, exists) {
					okAll = false
				}
			}
		}
		restore()
		c.Decide(okAll && nUse > 0, "R17.2", "named-face-exists:"+h[0]+"."+h[1], p.Pos(fn.Pos()), "the FaceId parameter reaches the installed route / next hop only through the edge asserting FaceTable.Get(id) != nil", h[0]+"."+h[1]+" can install a route or next hop on the face named in the command without having found that face in the face table (the existence test is missing or looks up a different id): the command is answered 200 for a face that does not exist")
	}

	// ---- R17.3
	// (a) indexes on parameter-derived names in the mgmt package
	nIdx := 0
	for _, fn := range p.FuncsIn(pkg) {
		for _, s := range core.IndexSinks(fn) {
			root, path := core.FieldPath(s.Container)
			_ = root
			if len(path) < 2 || path[len(path)-1] != "Name" || path[len(path)-2] != "Strategy" {
				continue
			}
			nIdx++
			// required: len(container) > index expression
			idx := core.StripConv(s.Index)
			need := &core.Atom{Name: "len(name)>index", Match: func(cond ssa.Value) (int, int) {
				op, x, y, ok := core.Cmp(cond)
				if !ok {
					return 0, 0
				}
				lx, isLen := core.LenOf(x)
				if isLen && core.Same(lx, s.Container) && core.Same(core.StripConv(y), idx) {
					switch op {
					case token.GTR:
						return 1, -1
					case token.LEQ:
						return -1, 1
					}
					return 0, 0
				}
				ly, isLen := core.LenOf(y)
				if isLen && core.Same(ly, s.Container) && core.Same(core.StripConv(x), idx) {
					switch op {
					case token.LSS:
						return 1, -1
					case token.GEQ:
						return -1, 1
					}
				}
				return 0, 0
			}}
			g := core.GateDeep(fn, []ssa.Instruction{s.Instr}, pos(need))
			c.Decide(g.OK && g.PassEdges > 0, "R17.3", fmt.Sprintf("strategy-name-index:%s#%d", core.FuncName(fn), nIdx), c.Pos(s.Instr), "Strategy.Name[i] only behind len(Strategy.Name) > i", core.FuncName(fn)+" indexes the decoded Strategy name at a position that was not shown to exist (IsPrefix only proves len ≥ len(prefix)): a strategy name equal to the strategy prefix crashes the management thread")
		}
	}
	c.Floor("R17.3", "index operations on decoded Strategy names", nIdx, 2)
	// (b) MTU lower bound, (c) capacity upper bound
	for _, fn := range p.FuncsIn(pkg) {
		for _, ci := range core.FindCallsDeep(fn, core.CalleeID{Pkg: "fw/face", Recv: "*", Name: "SetMTU"}) {
			small := &core.Atom{Name: "*params.Mtu<min", Match: func(cond ssa.Value) (int, int) {
				op, x, y, ok := core.CmpOrient(cond, func(v ssa.Value) bool { return isDerefOfField(v, "Mtu") })
				if !ok {
					return 0, 0
				}
				if !isDerefOfField(x, "Mtu") {
					return 0, 0
				}
				if _, isC := core.ConstInt(y); !isC {
					// or a minimum chosen among constants (by whether the face fragments)
					phi, isPhi := core.StripConv(y).(*ssa.Phi)
					if !isPhi {
						return 0, 0
					}
					for _, e := range phi.Edges {
						if k, okK := core.ConstInt(core.StripConv(e)); !okK || k <= 0 {
							return 0, 0
						}
					}
				}
				switch op {
				case token.LSS, token.LEQ: // mtu < K: a lower-bound test
					return 1, -1
				case token.GEQ: // mtu >= K
					return -1, 1
				case token.GTR: // mtu > K (an upper-bound test such as > MaxNDNPacketSize): only the true edge says "not too small"
					return -1, 0
				}
				return 0, 0
			}}
			present := atomValNonNil("params.Mtu!=nil", func(v ssa.Value) bool { _, ok := core.FieldOf(v, "Mtu"); return ok })
			g := core.GateDeep(fn, []ssa.Instruction{ci}, neg(small), neg(present))
			c.Decide(g.OK && g.PerLit[0] > 0, "R17.3", "mtu-lower-bound:"+core.FuncName(fn), c.Pos(ci), "SetMTU unreachable for an MTU below the minimum", core.FuncName(fn)+" accepts any MTU from the command (no lower bound): an MTU smaller than the link-protocol overhead makes the effective MTU ≤ 0 and the next packet sent on that face divides by zero / allocates a negative fragment count")
		}
		// (b2) the decoded 64-bit MTU is converted to int only after it was bounded on the
		// unsigned value (or it is shown non-negative afterwards): int(2^63) is negative,
		// passes `< MinMTU`-style refusals made on the unsigned value and min(…, Max) alike
		for _, ci := range core.FindCalls(fn, core.CalleeID{Pkg: "fw/face", Recv: "*", Name: "SetMTU"}) {
			_, args := core.CallArgs(ci.Common())
			if len(args) != 1 {
				continue
			}
			mtuSpec := &core.TaintSpec{SourceField: func(typ, field string) bool { return field == "Mtu" && typ == "ControlArgs" }}
			ls := mtuSpec.Leaves(args[0])
			if len(ls) == 0 {
				continue
			}
			v := mtuSpec.Bounded(p, fn, core.Sink{Instr: ci, Kind: "MTU", Val: args[0], Leaves: ls})
			c.Decide(v.OK, "R17.3", "mtu-conversion-bounded:"+core.FuncName(fn), c.Pos(ci), "the decoded MTU reaches SetMTU only bounded above, the bound taken before the conversion to int", core.FuncName(fn)+": "+v.Reason+" — a face MTU below zero drops every frame (or panics the send path)")
		}
		for _, ci := range core.FindCallsDeep(fn, core.CalleeID{Pkg: "fw/table", Name: "SetCsCapacity"}) {
			big := &core.Atom{Name: "*params.Capacity>max", Match: func(cond ssa.Value) (int, int) {
				op, x, y, ok := core.Cmp(cond)
				if !ok {
					return 0, 0
				}
				if _, isC := core.ConstInt(y); !isC || !isDerefOfField(x, "Capacity") {
					return 0, 0
				}
				switch op {
				case token.GTR, token.GEQ:
					return 1, -1
				case token.LEQ:
					return -1, 1
				case token.LSS:
					return -1, 0
				}
				return 0, 0
			}}
			present := atomValNonNil("params.Capacity!=nil", func(v ssa.Value) bool { _, ok := core.FieldOf(v, "Capacity"); return ok })
			g := core.GateDeep(fn, []ssa.Instruction{ci}, neg(big), neg(present))
			c.Decide(g.OK && g.PerLit[0] > 0, "R17.3", "capacity-upper-bound:"+core.FuncName(fn), c.Pos(ci), "SetCsCapacity unreachable for a capacity that does not fit an int", core.FuncName(fn)+" converts the 64-bit Capacity parameter to int without an upper bound: 2^63 and above become a negative capacity, the eviction loop then empties the queue and dereferences a nil Front()")
		}
	}
	// (d) optional top-level element of a decoded message
	nVal := 0
	seenVal := map[string]bool{}
	for _, fn := range p.FuncsIn(pkg) {
		core.Instrs(fn, func(in ssa.Instruction) {
			fa, ok := in.(*ssa.FieldAddr)
			if !ok {
				return
			}
			u, ok := core.Strip(fa.X).(*ssa.UnOp)
			if !ok || u.Op != token.MUL {
				return
			}
			inner, ok := u.X.(*ssa.FieldAddr)
			if !ok {
				return
			}
			if _, f := core.FieldAddrName(inner); f != "Val" {
				return
			}
			e, ok := core.Strip(inner.X).(*ssa.Extract)
			if !ok || e.Index != 0 {
				return
			}
			cl, ok := e.Tuple.(*ssa.Call)
			if !ok {
				return
			}
			id, _ := core.Callee(&cl.Call)
			if id.Pkg != "std/ndn/mgmt_2022" || !strings.HasPrefix(id.Name, "Parse") {
				return
			}
			nVal++
			v := ssa.Value(u)
			g := core.GateDeep(fn, []ssa.Instruction{in}, pos(atomNonNil("msg.Val!=nil", v)))
			k := "decoded-element-nil-check:" + core.FuncName(fn) + ":" + id.Name
			if seenVal[k] && g.OK && g.PassEdges > 0 {
				return
			}
			if seenVal[k+"!"] {
				return
			}
			seenVal[k] = true
			if !(g.OK && g.PassEdges > 0) {
				seenVal[k+"!"] = true
			}
			c.Decide(g.OK && g.PassEdges > 0, "R17.3", k, c.Pos(in), "fields of the decoded element are read only behind its != nil test", core.FuncName(fn)+" reads fields of "+id.Name+"(...).Val without a nil check: a component that decodes to an empty message crashes the management thread")
		})
	}
	c.Extra["decoded_val_field_reads"] = nVal

	c17Round4(c)
	c17Round4b(c)
	c17DatasetItemFieldsPerItem(c)
	c17DatasetFields(c)

	// ---- R17.6 every dereference of an optional element of a decoded message in the
	// management package (handlers with or without a mutation, dataset queries, the thread's
	// own dispatch) is behind its presence test — also when presence is coupled to another
	// element (Flags/Mask both-or-neither, through the validity-flag idiom)
	reportOptionalDerefs(c, "R17.6", []string{"fw/mgmt"}, nil, 60, "a command omitting the element crashes the management thread (nil pointer dereference)")

	// ---- R17.5 what the management thread's transport dereferences unconditionally on
	// every frame it receives (InternalTransport.Receive: LpPacket, IncomingFaceId) is
	// supplied by the producing side: the internal face is created with incoming-face
	// indication enabled; every OutPkt built by the forwarder names a non-nil incoming face;
	// face options of an internal face cannot be changed through management
	if reg := c.Fn("R17.5", "fw/face", "", "RegisterInternalTransport"); reg != nil {
		on := false
		core.Instrs(reg, func(in ssa.Instruction) {
			if _, v, ok := storeToField(in, "NDNLPLinkServiceOptions", "IsIncomingFaceIndicationEnabled"); ok {
				if b, isC := core.ConstBool(v); isC && b {
					on = true
				}
			}
		})
		c.Decide(on, "R17.5", "internal-face-indication-enabled", p.Pos(reg.Pos()), "the internal face is created with IsIncomingFaceIndicationEnabled = true", "RegisterInternalTransport no longer enables incoming-face indication, but InternalTransport.Receive dereferences IncomingFaceId of every frame: the first command crashes the management thread")
	}
	{
		nLit, bad := 0, ""
		for _, fn := range p.FuncsIn(core.ModPath + "/fw/fw") {
			if ps := fn.Pos(); ps.IsValid() && strings.HasSuffix(p.Fset.Position(ps).Filename, "_test.go") {
				continue
			}
			core.Instrs(fn, func(in ssa.Instruction) {
				al, ok := in.(*ssa.Alloc)
				if !ok || core.TypePkgPath(al.Type()) != core.ModPath+"/fw/dispatch" {
					return
				}
				if nt, ok := core.Deref(al.Type()).(*types.Named); !ok || nt.Obj().Name() != "OutPkt" {
					return
				}
				nLit++
				// a construction shared by both outgoing pipelines (one helper, two
				// callers) stands for one construction per caller
				if fn.Parent() == nil {
					if cs := p.Callers(fn); len(cs) >= 2 {
						nLit += len(cs) - 1
					}
				}
				c.Funcs[core.FuncName(fn)] = true
				okLit := false
				for _, r := range core.Refs(al) {
					fa, isFA := r.(*ssa.FieldAddr)
					if !isFA {
						continue
					}
					if _, f := core.FieldAddrName(fa); f != "InFace" {
						continue
					}
					for _, r2 := range core.Refs(fa) {
						st, isSt := r2.(*ssa.Store)
						if !isSt || st.Addr != ssa.Value(fa) {
							continue
						}
						v := core.Strip(st.Val)
						if cl, isCall := v.(*ssa.Call); isCall {
							if id, okID := core.Callee(&cl.Call); okID && id.Name == "IdPtr" {
								okLit = true
							}
						}
						if _, isAl := v.(*ssa.Alloc); isAl {
							okLit = true
						}
						if u, isLoad := v.(*ssa.UnOp); isLoad && u.Op == token.MUL {
							g := core.GateDeep(fn, []ssa.Instruction{st}, pos(atomNonNil("InFace source != nil", u)))
							if g.OK && g.PassEdges > 0 {
								okLit = true
							}
						}
					}
				}
				if !okLit {
					bad = core.FuncName(fn) + " at " + c.Pos(in)
				}
			})
		}
		c.Decide(bad == "" && nLit >= 2, "R17.5", "every-outpkt-names-incoming-face", "-", fmt.Sprintf("%d OutPkt constructions, each with a non-nil InFace (IdPtr, address of a local, or a nil-checked field)", nLit), "an OutPkt is built without a (provably non-nil) incoming face ("+bad+"): when it is sent to the management thread's internal face the frame carries no IncomingFaceId and InternalTransport.Receive dereferences nil")
	}
	// ---- R17.19 faces/query lists a face whose scheme matches at EITHER end: with a UriScheme
	// filter, a face whose local URI has that scheme is kept whatever the remote URI's scheme
	// is, and the other way round (NFD FaceQueryFilter). Decided as reachability of the
	// 'keep' effect from an edge asserting the match at one end, with the edges asserting a
	// match at the other end cut.
	if q := c.Fn("R17.19", "fw/mgmt", "FaceModule", "query"); q != nil {
		var keep ssa.Instruction
		core.InstrsDeep(q, func(in ssa.Instruction) {
			if cl, ok := isBuiltinCall(in, "append"); ok && keep == nil && core.InLoop(cl.Block()) {
				keep = in
			}
		})
		schemeOf := func(v ssa.Value, end string) bool {
			cl, ok := core.Strip(v).(*ssa.Call)
			if !ok {
				return false
			}
			id, okID := core.Callee(&cl.Call)
			if !okID || id.Name != "Scheme" {
				return false
			}
			r, _ := core.CallArgs(&cl.Call)
			rc, ok := core.Strip(r).(*ssa.Call)
			if !ok {
				return false
			}
			rid, okR := core.Callee(&rc.Call)
			return okR && rid.Name == end
		}
		isFilter := func(v ssa.Value) bool {
			_, path := core.FieldPath(core.DerefOnce(v))
			if len(path) == 0 {
				_, path = core.FieldPath(v)
			}
			return len(path) > 0 && path[len(path)-1] == "UriScheme"
		}
		mk := func(end string) *core.Atom {
			return &core.Atom{Name: "scheme == " + end + ".Scheme()", Match: func(cond ssa.Value) (int, int) {
				op, x, y, ok := core.Cmp(cond)
				if !ok || (op != token.EQL && op != token.NEQ) {
					return 0, 0
				}
				if (isFilter(x) && schemeOf(y, end)) || (isFilter(y) && schemeOf(x, end)) {
					return core.Iff(op == token.EQL)
				}
				return 0, 0
			}}
		}
		eqL, eqR := mk("LocalURI"), mk("RemoteURI")
		if keep == nil {
			c.Und("R17.19", "query-scheme-matches-either-end", p.Pos(q.Pos()), "the loop that collects the matching faces was not found")
		} else {
			bad := ""
			nEdges := 0
			// In a tagless switch a case `a && b && c` is built as a VALUE: the last
			// conjunct has no branch of its own, its comparison feeds the phi that the
			// switch branches on. For an atom matching such a comparison v (in block B,
			// joined in J): "v is false" is the path B → J → J's false successor.
			type phiFed struct {
				from, join *ssa.BasicBlock
			}
			phiFacts := func(a *core.Atom) []phiFed {
				var out []phiFed
				core.Instrs(keep.Parent(), func(in ssa.Instruction) {
					v, ok := in.(*ssa.BinOp)
					if !ok {
						return
					}
					_, onF := a.Match(v)
					if onF <= 0 || v.Referrers() == nil {
						return
					}
					for _, r := range *v.Referrers() {
						ph, isPhi := r.(*ssa.Phi)
						if !isPhi || len(ph.Block().Instrs) == 0 {
							continue
						}
						j := ph.Block()
						if iff, isIf := j.Instrs[len(j.Instrs)-1].(*ssa.If); isIf && iff.Cond == ssa.Value(ph) {
							out = append(out, phiFed{v.Block(), j})
						}
					}
				})
				return out
			}
			for _, pair := range [][2]*core.Atom{{eqL, eqR}, {eqR, eqL}} {
				cut, _ := core.CutEdges(q, pos(pair[1]))
				for _, pf := range phiFacts(pair[1]) {
					cut[core.Edge{From: pf.from, To: pf.join}] = true
				}
				reaches := false
				for _, pf := range phiFacts(pair[0]) {
					nEdges++
					hdr := loopHeader(keep.Block())
					if core.ReachInstrFrom(core.Point{Block: pf.join.Succs[1], Idx: 0}, keep, cut, func(x ssa.Instruction) bool {
						return hdr != nil && x.Block() == hdr && len(hdr.Instrs) > 0 && x == hdr.Instrs[0]
					}) != nil {
						reaches = true
					}
				}
				for _, ef := range core.EdgeFactsDeep(q, pair[0]) {
					if !ef.Holds || ef.E.From.Parent() != keep.Parent() {
						continue
					}
					nEdges++
					// within the same iteration: the walk stops at the loop header
					hdr := loopHeader(keep.Block())
					if core.ReachInstrFrom(core.Point{Block: ef.E.To, Idx: 0}, keep, cut, func(x ssa.Instruction) bool {
						return hdr != nil && x.Block() == hdr && len(hdr.Instrs) > 0 && x == hdr.Instrs[0]
					}) != nil {
						reaches = true
					}
				}
				if !reaches {
					bad = pair[0].Name
				}
			}
			c.Decide(bad == "" && nEdges >= 2, "R17.19", "query-scheme-matches-either-end", c.Pos(keep), "a face is kept when the filter's scheme matches its local URI alone, or its remote URI alone", "faces/query with a UriScheme filter drops a face although "+bad+" (the face is only kept when the other end matches too): faces whose two ends have different schemes — every Unix application face, fd:// remote and unix:// local — are never listed for their scheme, so the dataset is not the current state")
		}
	}

	// ---- R17.21 a face that faces/create reports with 200 can be sent on at once: the TCP
	// transport connects later, in its receive loop, so until then its connection is nil.
	// In a transport whose constructor does not set its connection, every use of the
	// connection in the methods the send path calls (sendFrame, GetSendQueueSize) is behind
	// "running" or "conn != nil" — otherwise the first congestion check on a face whose peer
	// is down dereferences nil in the send goroutine and the daemon dies.
	if ti := p.Named("fw/face", "transport"); ti != nil {
		nLate := 0
		for _, t := range p.Implementations(ti) {
			st, ok := t.Underlying().(*types.Struct)
			if !ok {
				continue
			}
			connIdx := -1
			for i := 0; i < st.NumFields(); i++ {
				if st.Field(i).Name() == "conn" {
					if _, isPtr := st.Field(i).Type().Underlying().(*types.Pointer); isPtr {
						connIdx = i
					}
				}
			}
			if connIdx < 0 {
				continue
			}
			// does some constructor leave conn unset?
			late := false
			for _, fn := range p.FuncsIn(core.ModPath + "/fw/face") {
				if fn.Signature.Recv() != nil || fn.Signature.Results().Len() == 0 || fn.Parent() != nil {
					continue
				}
				if core.Deref(fn.Signature.Results().At(0).Type()) != types.Type(t) {
					continue
				}
				sets := false
				core.Instrs(fn, func(in ssa.Instruction) {
					if _, _, ok := storeToField(in, t.Obj().Name(), "conn"); ok {
						sets = true
					}
				})
				if !sets {
					late = true
				}
			}
			if !late {
				continue
			}
			nLate++
			for _, mn := range []string{"sendFrame", "GetSendQueueSize"} {
				fn := p.MethodOf(t, mn)
				if fn == nil || fn.Blocks == nil {
					continue
				}
				var uses []ssa.Instruction
				core.Instrs(fn, func(in ssa.Instruction) {
					ci, ok := in.(ssa.CallInstruction)
					if !ok || len(ci.Common().Args) == 0 {
						return
					}
					if _, isF := core.FieldOf(ci.Common().Args[0], "conn"); isF && ci.Common().StaticCallee() != nil && ci.Common().StaticCallee().Signature.Recv() != nil {
						uses = append(uses, in)
					}
				})
				if len(uses) == 0 {
					continue
				}
				c.Funcs[core.FuncName(fn)] = true
				ready := &core.Atom{Name: "connected", Match: func(cond ssa.Value) (int, int) {
					if cl, ok := core.Strip(cond).(*ssa.Call); ok {
						if id, okID := core.Callee(&cl.Call); okID && id.Name == "Load" && len(cl.Call.Args) == 1 {
							if fa, isFA := cl.Call.Args[0].(*ssa.FieldAddr); isFA {
								if _, fld := core.FieldAddrName(fa); fld == "running" {
									return 1, -1
								}
							}
						}
					}
					op, x, y, okC := core.Cmp(cond)
					if okC && (op == token.EQL || op == token.NEQ) && core.IsNilConst(y) {
						if _, isF := core.FieldOf(x, "conn"); isF {
							return core.Iff(op == token.NEQ)
						}
					}
					return 0, 0
				}}
				g := core.Gate(fn, uses, pos(ready))
				c.Decide(g.OK && g.PassEdges > 0, "R17.21", "late-connection-guarded:"+t.Obj().Name()+"."+mn, c.Pos(uses[0]), "the connection is used only behind running / conn != nil", t.Obj().Name()+"."+mn+" uses the transport's connection without checking that there is one: the constructor leaves it nil (the transport connects in its receive loop), faces/create answers 200 before that, and the first packet that reaches this call on a face whose peer is down panics in the face's send goroutine — the daemon dies")
			}
		}
		c.Floor("R17.21", "transports that connect after construction", nLate, 1)
	}

	// ---- R17.22 a route registered with an ExpirationPeriod leaves the RIB when the period is
	// over: somewhere in the forwarder the stored period reaches a timer (time.AfterFunc /
	// NewTimer / After / Reset) or a comparison with the clock. If it is only stored, echoed
	// and listed, rib/register answers 200 for an effect that never happens.
	{
		enforced := false
		nLoads := 0
		for _, pk := range []string{"fw/table", "fw/mgmt", "fw/fw", "fw/face"} {
			for _, fn := range p.FuncsIn(core.ModPath + "/" + pk) {
				if strings.HasSuffix(p.File(fn.Pos()), "_test.go") {
					continue
				}
				core.Instrs(fn, func(in ssa.Instruction) {
					ci, ok := in.(ssa.CallInstruction)
					if !ok {
						return
					}
					id, okID := core.Callee(ci.Common())
					if !okID || id.Pkg != "time" {
						return
					}
					switch id.Name {
					case "AfterFunc", "NewTimer", "After", "Reset", "Add":
					default:
						return
					}
					for _, a := range ci.Common().Args {
						v := core.StripConv(a)
						if u, isU := v.(*ssa.UnOp); isU {
							if _, path := core.FieldPath(u.X); len(path) > 0 && path[len(path)-1] == "ExpirationPeriod" {
								if root, _ := core.FieldPath(u.X); root != nil && strings.Contains(root.Type().String(), "Route") {
									enforced = true
								}
							}
						}
					}
				})
				core.Instrs(fn, func(in ssa.Instruction) {
					if fa, ok := in.(*ssa.FieldAddr); ok {
						if tn, fld := core.FieldAddrName(fa); tn == "Route" && fld == "ExpirationPeriod" {
							nLoads++
						}
					}
				})
			}
		}
		c.Decide(enforced, "R17.22", "route-expiration-enforced", "-", "the stored ExpirationPeriod of a route reaches a timer", fmt.Sprintf("a route's ExpirationPeriod is stored, echoed and listed (%d accesses) but never reaches a timer or a comparison with the clock: rib/register ... ExpirationPeriod=200 answers 200 and the route and its next hop are still there for ever", nLoads))
	}

	// ---- R17.18 (shared with C10 R10.17) "never crashes": an MTU that management accepts never
	// leads to a division by zero in the send path
	c.Import(C10, "R17.18", "the send path divides by the payload room without having established that it is positive: an MTU that faces/create or faces/update accepts, with a PIT token that uses up the room, crashes the forwarder", 1, func(k string) bool {
		return strings.HasPrefix(k, "R10.17:divisor-positive")
	})

}

// isDerefOfField: v is *(X.field) for some X.
func isDerefOfField(v ssa.Value, field string) bool {
	u, ok := core.StripConv(v).(*ssa.UnOp)
	if !ok || u.Op != token.MUL {
		return false
	}
	_, ok = core.FieldOf(u.X, field)
	return ok
}

// valueOkHelper: v (used at `at` in fn) is component i of the result of a helper that also
// returns a boolean component j; `at` is reachable only when that boolean is true; and
// every return of the helper whose component i can carry a source value has a component
// j that is false, is the expression of atom a (true ⇒ a), or is reached only through
// edges asserting a.
func valueOkHelper(fn *ssa.Function, at ssa.Instruction, v ssa.Value, isSource func(ssa.Value) bool, a *core.Atom) bool {
	ex, ok := core.Strip(v).(*ssa.Extract)
	if !ok {
		if phi, isPhi := core.Strip(v).(*ssa.Phi); isPhi {
			// every edge that can carry the source qualifies
			any := false
			for _, e := range phi.Edges {
				if _, isC := core.ConstInt(e); isC {
					continue
				}
				if !valueOkHelper(fn, at, e, isSource, a) {
					return false
				}
				any = true
			}
			return any
		}
		return false
	}
	cl, ok := ex.Tuple.(*ssa.Call)
	if !ok {
		return false
	}
	h := cl.Call.StaticCallee()
	if h == nil || h.Blocks == nil {
		return false
	}
	for j := 0; j < h.Signature.Results().Len(); j++ {
		bt, isB := h.Signature.Results().At(j).Type().Underlying().(*types.Basic)
		if j == ex.Index || !isB || bt.Kind() != types.Bool {
			continue
		}
		okTrue := &core.Atom{Name: "helper-ok", Match: func(cond ssa.Value) (int, int) {
			if e2, isE := core.Strip(cond).(*ssa.Extract); isE && e2.Tuple == ssa.Value(cl) && e2.Index == j {
				return 1, -1
			}
			return 0, 0
		}}
		if g := core.GateDeep(fn, []ssa.Instruction{at}, core.Lit{A: okTrue, Want: true}); !g.OK || g.PassEdges == 0 {
			continue
		}
		all, n := true, 0
		core.Instrs(h, func(in ssa.Instruction) {
			r, isR := in.(*ssa.Return)
			if !isR || len(r.Results) <= j || len(r.Results) <= ex.Index {
				return
			}
			if !core.FlowPath(r.Results[ex.Index], r, isSource, nil, nil) {
				return
			}
			n++
			if b, isC := core.ConstBool(r.Results[j]); isC {
				if b {
					// ok is true unconditionally: the path to this return must be guarded
					if g := core.Gate(h, []ssa.Instruction{r}, core.Lit{A: a, Want: true}); !g.OK || g.PassEdges == 0 {
						all = false
					}
				}
				return
			}
			ec, neg := core.StripNot(r.Results[j])
			onT, onF := a.Match(ec)
			if neg {
				onT, onF = onF, onT
			}
			_ = onF
			if onT <= 0 {
				if g := core.Gate(h, []ssa.Instruction{r}, core.Lit{A: a, Want: true}); !g.OK || g.PassEdges == 0 {
					all = false
				}
			}
		})
		if all && n > 0 {
			return true
		}
	}
	return false
}

// c17Round4 — rules added for defects a bug-hunting agent demonstrated on the unmodified tree.
//
// R17.1b the link-local management prefix is served only when localhop management is
// enabled: module dispatch is reachable only under localPrefix.IsPrefix(name) or with
// enableLocalhopManagement true (the FIB not having a /localhop/nfd entry is not enough: a
// forwarding hint or NextHopFaceId still brings the Interest to the internal face).
//
// R17.7 strategy-choice/set installs only a strategy instance the forwarding threads have:
// the table mutator is unreachable for a strategy name with components after the version,
// and the name handed to it ends in a version component built by NewVersionComponent.
//
// R17.8 a response is never nil: the parameter dictionary of makeControlResponse is nil or
// a map built in the handler itself, never a dictionary derived from the request (which may
// hold fields the response encoder rejects; makeControlResponse then returns nil and
// sendResponse dereferences it).
//
// R17.9 a FacePersistency number taken from the command becomes a face.Persistency only
// behind a comparison with one of the persistencies.
func c17Round4(c *core.Ctx) {
	p := c.P
	pkg := core.ModPath + "/fw/mgmt"
	// ---- R17.1b
	if run := c.Fn("R17.1", "fw/mgmt", "Thread", "Run"); run != nil {
		var disp []ssa.Instruction
		for _, ci := range core.FindCallsDeep(run, core.CalleeID{Pkg: "fw/mgmt", Recv: "Module", Name: "handleIncomingInterest"}) {
			disp = append(disp, ci)
		}
		local := atomCallTrue("localPrefix.IsPrefix(name)", func(cl *ssa.Call) bool {
			cc, ok := core.IsCall(cl, core.CalleeID{Pkg: "std/encoding", Recv: "Name", Name: "IsPrefix"})
			if !ok {
				return false
			}
			r, _ := core.CallArgs(cc)
			_, okF := core.FieldOf(r, "localPrefix")
			return okF
		})
		enabled := &core.Atom{Name: "enableLocalhopManagement", Match: func(cond ssa.Value) (int, int) {
			if u, ok := core.Strip(cond).(*ssa.UnOp); ok && u.Op == token.MUL {
				if g, isG := u.X.(*ssa.Global); isG && g.Name() == "enableLocalhopManagement" {
					return 1, -1
				}
			}
			return 0, 0
		}}
		g := core.GateDeep(run, disp, pos(local), pos(enabled))
		c.Decide(len(disp) > 0 && g.OK && g.PerLit[0] > 0 && g.PerLit[1] > 0, "R17.1", "localhop-prefix-only-when-enabled", p.Pos(run.Pos()), "dispatch is reachable only under the local prefix or with localhop management enabled", "the management thread dispatches commands named under the link-local prefix /localhop/nfd although localhop management is disabled: a non-local face that steers such an Interest to the internal face (forwarding hint /localhost/nfd) gets rib/register executed and installs a route to itself; path: "+p.PathString(g.Path))
	}

	// ---- R17.7
	if set := c.Fn("R17.7", "fw/mgmt", "StrategyChoiceModule", "set"); set != nil {
		var muts []ssa.Instruction
		for _, ci := range core.FindCallsDeep(set, core.CalleeID{Pkg: "fw/table", Recv: "FibStrategy", Name: "SetStrategyEnc"}) {
			muts = append(muts, ci)
		}
		isStratName := func(v ssa.Value) bool {
			_, path := core.FieldPath(v)
			return len(path) >= 2 && path[len(path)-1] == "Name" && path[len(path)-2] == "Strategy"
		}
		tooLong := &core.Atom{Name: "len(Strategy.Name) > len(prefix)+2", Match: func(cond ssa.Value) (int, int) {
			op, x, y, ok := core.CmpOrient(cond, func(v ssa.Value) bool { l, isL := core.LenOf(core.StripConv(v)); return isL && isStratName(l) })
			if !ok {
				return 0, 0
			}
			lx, isLen := core.LenOf(core.StripConv(x))
			if !isLen || !isStratName(lx) {
				return 0, 0
			}
			b, isB := core.StripConv(y).(*ssa.BinOp)
			if !isB || b.Op != token.ADD {
				return 0, 0
			}
			k, isC := core.ConstInt(b.Y)
			pl, isL := core.LenOf(core.StripConv(b.X))
			if !isC || !isL {
				return 0, 0
			}
			if _, okP := core.FieldOf(pl, "strategyPrefix"); !okP {
				return 0, 0
			}
			switch {
			case op == token.GTR && k == 2, op == token.GEQ && k == 3:
				return 1, -1
			case op == token.LEQ && k == 2, op == token.LSS && k == 3:
				return -1, 1
			}
			return 0, 0
		}}
		g := core.GateDeep(set, muts, neg(tooLong))
		c.Decide(len(muts) > 0 && g.OK && g.PassEdges > 0, "R17.7", "no-components-after-version", p.Pos(set.Pos()), "SetStrategyEnc is unreachable for a strategy name with more than prefix+2 components", "strategy-choice/set installs a strategy name with components after the version (…/best-route/v=1/extra) and answers 200: no forwarding thread has an instance under that name, the next packet under the prefix finds a nil strategy and crashes the daemon")
		// the installed name ends in a freshly built version component
		canon := func(v ssa.Value) bool {
			seen := map[ssa.Value]bool{}
			var walk func(v ssa.Value, d int) bool
			walk = func(v ssa.Value, d int) bool {
				v = core.Strip(v)
				if seen[v] || d > 6 {
					return false
				}
				seen[v] = true
				if cl, ok := v.(*ssa.Call); ok {
					if b, isB := cl.Call.Value.(*ssa.Builtin); isB && b.Name() == "append" && len(cl.Call.Args) == 2 {
						// append(base, <slice literal holding NewVersionComponent(..)>...)
						okEl := false
						if sl, isSl := core.Strip(cl.Call.Args[1]).(*ssa.Slice); isSl {
							if al, isAl := core.Strip(sl.X).(*ssa.Alloc); isAl {
								for _, r := range core.Refs(al) {
									if ia, isIA := r.(*ssa.IndexAddr); isIA {
										for _, r2 := range core.Refs(ia) {
											if st, isSt := r2.(*ssa.Store); isSt {
												if c2, isC := core.Strip(st.Val).(*ssa.Call); isC {
													if id, okID := core.Callee(&c2.Call); okID && id.Name == "NewVersionComponent" {
														okEl = true
													}
												}
											}
										}
									}
								}
							}
						}
						return okEl
					}
				}
				if ph, ok := v.(*ssa.Phi); ok {
					for _, e := range ph.Edges {
						if !walk(e, d+1) {
							return false
						}
					}
					return len(ph.Edges) > 0
				}
				return false
			}
			return walk(v, 0)
		}
		for i, m := range muts {
			_, args := core.CallArgs(m.(ssa.CallInstruction).Common())
			okC := false
			if len(args) == 2 {
				if canon(args[1]) {
					okC = true
				} else if isStratName(args[1]) {
					// the field was overwritten with the canonical name on every path to the call
					okC = core.PrecedesDeep(set, m, func(x ssa.Instruction) bool {
						st, ok := x.(*ssa.Store)
						if !ok {
							return false
						}
						fa, ok := st.Addr.(*ssa.FieldAddr)
						if !ok {
							return false
						}
						if _, fld := core.FieldAddrName(fa); fld != "Name" {
							return false
						}
						return canon(st.Val)
					})
				}
			}
			c.Decide(okC, "R17.7", fmt.Sprintf("installed-strategy-name-is-canonical#%d", i), c.Pos(m), "the installed strategy name ends in NewVersionComponent(version) on every path", "strategy-choice/set hands the strategy name of the command to the table as it came (at least on one path): a version number in a longer-than-shortest encoding is stored verbatim, the forwarding threads know the instance under the canonical name only, and the next packet under the prefix crashes the daemon")
		}
	}

	// ---- R17.10 a route is installed only on a face that exists — the requesting face
	// included (it may have been removed while its command was queued) — and the face is
	// looked up again after the route is in the table: faces are removed from their own
	// goroutines, a removal that ran between the check and the insertion has already
	// cleaned up and will not run again (face ids are not reused)
	if reg := c.Fn("R17.10", "fw/mgmt", "RIBModule", "register"); reg != nil {
		var add ssa.Instruction
		for _, ci := range core.FindCallsDeep(reg, core.CalleeID{Pkg: "fw/table", Recv: "RibTable", Name: "AddEncRoute"}) {
			add = ci
		}
		var faceV ssa.Value
		core.InstrsDeep(reg, func(in ssa.Instruction) {
			if _, v, ok := storeToField(in, "Route", "FaceID"); ok {
				faceV = v
			}
		})
		if add == nil || faceV == nil {
			c.Und("R17.10", "route-face-exists", p.Pos(reg.Pos()), "AddEncRoute call or Route.FaceID store not found in register")
		} else {
			exists := &core.Atom{Name: "FaceTable.Get(route face) != nil", Match: func(cond ssa.Value) (int, int) {
				op, x, y, ok := core.Cmp(cond)
				if !ok || (op != token.EQL && op != token.NEQ) || !core.IsNilConst(y) {
					return 0, 0
				}
				cl, isCall := core.Strip(x).(*ssa.Call)
				if !isCall {
					return 0, 0
				}
				if id, okID := core.Callee(&cl.Call); !okID || !isFaceLookup(c.P, id) {
					return 0, 0
				}
				_, a := core.CallArgs(&cl.Call)
				if len(a) != 1 || !(core.Strip(a[0]) == core.Strip(faceV) || core.Same(a[0], faceV)) {
					return 0, 0
				}
				return core.Iff(op == token.NEQ)
			}}
			g := core.GateDeep(reg, []ssa.Instruction{add}, pos(exists))
			c.Decide(g.OK && g.PassEdges > 0, "R17.10", "route-face-exists", c.Pos(add), "AddEncRoute is reachable only when the face the route is put on — named or requesting — is in the face table", "rib/register installs the route without having found its face in the face table on some path (the requesting face is taken for granted): a command of a face removed while the command was queued leaves a permanent route and next hop on a dead face id; path: "+p.PathString(g.Path))
			// after the insertion: every 200 response is behind a second existence test
			cut, _ := core.CutEdgesDeep(reg, pos(exists))
			leak := ""
			for _, ci := range core.FindCallsDeep(reg, core.CalleeID{Pkg: "fw/mgmt", Recv: "Thread", Name: "sendResponse"}) {
				if ci.Parent() != add.Parent() {
					continue
				}
				if core.ReachInstrFrom(core.After(add), ci, cut, func(x ssa.Instruction) bool {
					y, isCI := x.(ssa.CallInstruction)
					if !isCI {
						return false
					}
					id, okID := core.Callee(y.Common())
					return okID && id.Name == "CleanUpFace"
				}) != nil {
					leak = c.Pos(ci)
				}
			}
			c.Decide(leak == "", "R17.10", "route-face-rechecked-after-insertion", c.Pos(add), "after AddEncRoute every response is behind a second look-up of the face (or the withdrawal of its routes)", "rib/register answers ("+leak+") after AddEncRoute without looking the face up again: a face removed between the existence test and the insertion has already had its routes cleaned up, so the new route stays on the dead face id for ever")
		}
	}

	// ---- R17.11 a 64-bit parameter of a command is narrowed (to int, or to a shorter unsigned
	// type) only behind an upper bound that the target type can hold, made on the unsigned
	// value: otherwise the command is answered 200 with the requested value echoed while
	// the table holds that value modulo 2^16 (Capacity 65536 becomes 0), or a negative one.
	{
		nNarrow := 0
		for _, fn := range p.FuncsIn(pkg) {
			if strings.HasSuffix(p.File(fn.Pos()), "_test.go") {
				continue
			}
			core.Instrs(fn, func(in ssa.Instruction) {
				cv, ok := in.(*ssa.Convert)
				if !ok {
					return
				}
				from, okF := cv.X.Type().Underlying().(*types.Basic)
				to, okT := cv.Type().Underlying().(*types.Basic)
				if !okF || !okT || from.Kind() != types.Uint64 || to.Info()&types.IsInteger == 0 {
					return
				}
				u, isU := core.Strip(cv.X).(*ssa.UnOp)
				if !isU || u.Op != token.MUL {
					return
				}
				if _, path := core.FieldPath(u.X); len(path) == 0 {
					return
				}
				if tn := core.TypePkgPath(func() types.Type {
					if fa, isFA := core.Strip(u.X).(*ssa.UnOp); isFA {
						if f2, isF2 := fa.X.(*ssa.FieldAddr); isF2 {
							return f2.X.Type()
						}
					}
					return cv.X.Type()
				}()); !strings.Contains(tn, "mgmt_2022") {
					return
				}
				var max uint64
				switch to.Kind() {
				case types.Uint8:
					max = 1<<8 - 1
				case types.Uint16:
					max = 1<<16 - 1
				case types.Uint32:
					max = 1<<32 - 1
				case types.Int8:
					max = 1<<7 - 1
				case types.Int16:
					max = 1<<15 - 1
				case types.Int32:
					max = 1<<31 - 1
				case types.Int, types.Int64:
					max = 1<<63 - 1
				default:
					return // uint64 / uint / uintptr: no narrowing on this platform
				}
				// only conversions whose result is adopted by a call outside logging
				adopted := false
				seen := map[ssa.Value]bool{}
				var walk func(v ssa.Value)
				walk = func(v ssa.Value) {
					if seen[v] {
						return
					}
					seen[v] = true
					for _, r := range core.Refs(v) {
						switch y := r.(type) {
						case *ssa.Phi:
							walk(y)
						case *ssa.Convert:
							walk(y)
						case ssa.CallInstruction:
							if id, okID := core.Callee(y.Common()); okID && (id.Pkg == "fw/table" || id.Pkg == "fw/face") {
								adopted = true
							}
						}
					}
				}
				walk(cv)
				if !adopted {
					return
				}
				nNarrow++
				c.Funcs[core.FuncName(fn)] = true
				src := ssa.Value(u)
				fits := &core.Atom{Name: "parameter fits the target type", Match: func(cond ssa.Value) (int, int) {
					op, x, y, okC := core.Cmp(cond)
					if !okC {
						return 0, 0
					}
					if bt, isB := x.Type().Underlying().(*types.Basic); !isB || bt.Info()&types.IsUnsigned == 0 {
						return 0, 0
					}
					if !(core.StripConv(x) == src || core.Same(core.StripConv(x), src)) {
						return 0, 0
					}
					k, isC := core.ConstInt(core.StripConv(y))
					if !isC || k < 0 {
						return 0, 0
					}
					switch {
					case op == token.GTR && uint64(k) <= max, op == token.GEQ && uint64(k) <= max+1 && k > 0:
						return -1, 1
					case op == token.LEQ && uint64(k) <= max, op == token.LSS && uint64(k) <= max+1 && k > 0:
						return 1, -1
					}
					return 0, 0
				}}
				// the value adopted: either the conversion is behind the bound, or every use of
				// it is (clamp after the conversion on the unsigned source)
				// (edges asserting that the parameter is absent cannot lead to the conversion,
				// which dereferences it)
				cut, per := core.CutEdgesDeep(fn, pos(fits), neg(atomNonNil("parameter present", u.X)))
				for e := range core.FlagCuts(fn, []ssa.Instruction{in}) {
					cut[e] = true
				}
				okN := per[0] > 0
				if okN && core.ReachInstr(fn, in, cut, nil) == nil {
					// the conversion itself is behind the bound
				} else if okN {
					// every adopting call must be unreachable, or receive another value, without a bound edge
					var calls []ssa.Instruction
					seen2 := map[ssa.Value]bool{}
					var collect func(v ssa.Value)
					collect = func(v ssa.Value) {
						if seen2[v] {
							return
						}
						seen2[v] = true
						for _, r := range core.Refs(v) {
							switch y := r.(type) {
							case *ssa.Phi:
								collect(y)
							case *ssa.Convert:
								collect(y)
							case ssa.CallInstruction:
								if id, okID := core.Callee(y.Common()); okID && (id.Pkg == "fw/table" || id.Pkg == "fw/face") {
									calls = append(calls, y)
								}
							}
						}
					}
					collect(cv)
					for _, cl := range calls {
						ci := cl.(ssa.CallInstruction)
						for _, a := range ci.Common().Args {
							if core.FlowPath(a, cl, func(x ssa.Value) bool { return x == ssa.Value(cv) }, cut, nil) {
								okN = false
							}
						}
					}
				}
				c.Decide(okN, "R17.11", fmt.Sprintf("parameter-narrowing-bounded:%s:%s", core.FuncName(fn), to.Name()), c.Pos(in), "the 64-bit parameter reaches the table / face call only bounded by what "+to.Name()+" can hold (bound made on the unsigned value)", core.FuncName(fn)+" converts a 64-bit command parameter to "+to.Name()+" and hands it on without an upper bound on the unsigned value that "+to.Name()+" can hold: the command is answered 200 with the requested value echoed, but the forwarder acts on the value modulo the target type (Capacity 65536 becomes 0) or on a negative one")
			})
		}
		// (the MTU conversions may live in a shared helper, where R17.3 decides them through
		// the taint engine's helper summaries: the floor counts what must remain — Capacity)
		c.Floor("R17.11", "narrowing conversions of a command parameter that reach a table or face call", nNarrow, 1)
	}

	// ---- R17.10b fib/add-nexthop: like rib/register, every response after the insertion is
	// behind a second look-up of the face (or the withdrawal of the next hop): the FIB
	// sweep of a face removed in between will not run again
	if add := c.Fn("R17.10", "fw/mgmt", "FIBModule", "add"); add != nil {
		var ins ssa.Instruction
		for _, ci := range core.FindCallsDeep(add, core.CalleeID{Pkg: "fw/table", Recv: "*", Name: "InsertNextHopEnc"}) {
			ins = ci
		}
		if ins == nil {
			c.Und("R17.10", "nexthop-face-rechecked-after-insertion", p.Pos(add.Pos()), "InsertNextHopEnc not found in fib/add-nexthop")
		} else {
			faceArg := ins.(ssa.CallInstruction).Common().Args
			var faceV ssa.Value
			if len(faceArg) >= 2 {
				faceV = faceArg[len(faceArg)-2]
			}
			exists := &core.Atom{Name: "FaceTable.Get(next-hop face) != nil", Match: func(cond ssa.Value) (int, int) {
				op, x, y, ok := core.Cmp(cond)
				if !ok || (op != token.EQL && op != token.NEQ) || !core.IsNilConst(y) {
					return 0, 0
				}
				cl, isCall := core.Strip(x).(*ssa.Call)
				if !isCall {
					return 0, 0
				}
				if id, okID := core.Callee(&cl.Call); !okID || !isFaceLookup(c.P, id) {
					return 0, 0
				}
				_, a := core.CallArgs(&cl.Call)
				if len(a) != 1 || faceV == nil || !(core.Strip(a[0]) == core.Strip(faceV) || core.Same(a[0], faceV)) {
					return 0, 0
				}
				return core.Iff(op == token.NEQ)
			}}
			cut, _ := core.CutEdgesDeep(add, pos(exists))
			leak := ""
			for _, ci := range core.FindCallsDeep(add, core.CalleeID{Pkg: "fw/mgmt", Recv: "Thread", Name: "sendResponse"}) {
				if ci.Parent() != ins.Parent() {
					continue
				}
				if core.ReachInstrFrom(core.After(ins), ci, cut, func(x ssa.Instruction) bool {
					y, isCI := x.(ssa.CallInstruction)
					if !isCI {
						return false
					}
					id, okID := core.Callee(y.Common())
					return okID && id.Name == "RemoveNextHopEnc"
				}) != nil {
					leak = c.Pos(ci)
				}
			}
			c.Decide(leak == "", "R17.10", "nexthop-face-rechecked-after-insertion", c.Pos(ins), "after InsertNextHopEnc every response is behind a second look-up of the face (or the withdrawal of the next hop)", "fib/add-nexthop answers ("+leak+") after InsertNextHopEnc without looking the face up again: a face removed between the existence test and the insertion has already had its next hops swept, so the new next hop stays on the dead face id for ever")
		}
	}

	// ---- R17.12 the handlers agree on "FaceId 0 means the requesting face": every handler that
	// defaults the face to the requesting one adopts the parameter only on the edge asserting
	// *FaceId != 0 (rib/register does; a route registered with FaceId=0 must be removable
	// with FaceId=0)
	{
		type site struct {
			fn    string
			pos   string
			gated bool
		}
		var sites []site
		for _, fn := range p.FuncsIn(pkg) {
			if fn.Parent() != nil || fn.Signature.Recv() == nil || len(fn.Params) != 4 || strings.HasSuffix(p.File(fn.Pos()), "_test.go") {
				continue
			}
			inFace := ssa.Value(fn.Params[3])
			core.Instrs(fn, func(in ssa.Instruction) {
				ph, ok := in.(*ssa.Phi)
				if !ok {
					return
				}
				hasIn, hasParam := false, false
				var paramEdge int
				for i, e := range ph.Edges {
					if core.Strip(e) == inFace {
						hasIn = true
					}
					if isDerefOfField(core.StripConv(e), "FaceId") {
						hasParam, paramEdge = true, i
					}
				}
				if !hasIn || !hasParam {
					return
				}
				nz := &core.Atom{Name: "*FaceId != 0", Match: func(cond ssa.Value) (int, int) {
					op, x, y, okC := core.Cmp(cond)
					if !okC || (op != token.EQL && op != token.NEQ) {
						return 0, 0
					}
					k, isC := core.ConstInt(y)
					if !isC || k != 0 || !isDerefOfField(core.StripConv(x), "FaceId") {
						return 0, 0
					}
					return core.Iff(op == token.NEQ)
				}}
				pred := ph.Block().Preds[paramEdge]
				cut, per := core.CutEdges(fn, pos(nz))
				gated := per[0] > 0 && core.ReachAvoiding(fn, fn.Blocks[0], map[*ssa.BasicBlock]bool{pred: true}, cut) == nil
				sites = append(sites, site{core.FuncName(fn), c.Pos(in), gated})
			})
		}
		// the defaulting may be a helper shared by the handlers (requestedFaceID(params,
		// inFace)): one that returns a parameter on one path and *FaceId on another; every
		// handler calling it is a site
		for _, fn := range p.FuncsIn(pkg) {
			if fn.Parent() != nil || strings.HasSuffix(p.File(fn.Pos()), "_test.go") || fn.Signature.Results().Len() != 1 {
				continue
			}
			var retPar, retFace []*ssa.Return
			core.Instrs(fn, func(in ssa.Instruction) {
				r, ok := in.(*ssa.Return)
				if !ok || len(r.Results) != 1 {
					return
				}
				v := core.StripConv(r.Results[0])
				if _, isPar := core.Strip(v).(*ssa.Parameter); isPar {
					retPar = append(retPar, r)
				}
				if isDerefOfField(v, "FaceId") {
					retFace = append(retFace, r)
				}
			})
			if len(retPar) == 0 || len(retFace) == 0 {
				continue
			}
			nz := &core.Atom{Name: "*FaceId != 0", Match: func(cond ssa.Value) (int, int) {
				op, x, y, okC := core.Cmp(cond)
				if !okC || (op != token.EQL && op != token.NEQ) {
					return 0, 0
				}
				k, isC := core.ConstInt(y)
				if !isC || k != 0 || !isDerefOfField(core.StripConv(x), "FaceId") {
					return 0, 0
				}
				return core.Iff(op == token.NEQ)
			}}
			var eff []ssa.Instruction
			for _, r := range retFace {
				eff = append(eff, r)
			}
			g := core.Gate(fn, eff, pos(nz))
			gated := g.OK && g.PassEdges > 0
			for _, cs := range p.Callers(fn) {
				sites = append(sites, site{core.FuncName(cs.Parent()) + " (through " + fn.Name() + ")", c.Pos(cs), gated})
			}
		}
		nG := 0
		for _, s := range sites {
			if s.gated {
				nG++
			}
		}
		for _, s := range sites {
			ok := s.gated || nG == 0
			c.Decide(ok, "R17.12", "face-id-zero-means-requesting-face:"+s.fn, s.pos, fmt.Sprintf("agrees with the other handlers (%d of %d treat FaceId 0 as the requesting face)", nG, len(sites)), s.fn+" adopts an explicit FaceId 0 as face number 0 while the other handlers ("+fmt.Sprint(nG)+" of "+fmt.Sprint(len(sites))+") take it for the requesting face: a route registered with FaceId=0 lands on the requesting face, the matching unregister removes nothing and still answers 200")
		}
		c.Floor("R17.12", "handlers that default the face to the requesting one", len(sites), 4)
	}

	// ---- R17.8
	nResp := 0
	for _, fn := range p.FuncsIn(pkg) {
		if strings.HasSuffix(p.File(fn.Pos()), "_test.go") {
			continue
		}
		core.Instrs(fn, func(in ssa.Instruction) {
			ci, ok := in.(ssa.CallInstruction)
			if !ok {
				return
			}
			id, ok := core.Callee(ci.Common())
			if !ok || id.Pkg != "fw/mgmt" || id.Name != "makeControlResponse" || len(ci.Common().Args) != 3 {
				return
			}
			nResp++
			seen := map[ssa.Value]bool{}
			var local func(v ssa.Value) (bool, string)
			local = func(v ssa.Value) (bool, string) {
				v = core.Strip(v)
				if seen[v] {
					return true, ""
				}
				seen[v] = true
				switch x := v.(type) {
				case *ssa.Const, *ssa.MakeMap:
					return true, ""
				case *ssa.Phi:
					for _, e := range x.Edges {
						if ok, w := local(e); !ok {
							return false, w
						}
					}
					return true, ""
				case *ssa.UnOp:
					if al, isAl := x.X.(*ssa.Alloc); isAl && x.Op == token.MUL {
						for _, r := range core.Refs(al) {
							if st, isSt := r.(*ssa.Store); isSt && st.Addr == ssa.Value(al) {
								if ok, w := local(st.Val); !ok {
									return false, w
								}
							}
						}
						return true, ""
					}
				case *ssa.Call:
					return false, "the result of " + calleeName(x)
				}
				return false, describeValue(v)
			}
			okL, why := local(ci.Common().Args[2])
			if !okL {
				c.Viol("R17.8", "response-parameters-built-locally:"+core.FuncName(fn), c.Pos(in), core.FuncName(fn)+" builds a response from "+why+": a dictionary derived from the request can hold a field the response encoder rejects (a Strategy field comes out of ToDict as a map); makeControlResponse then returns nil and sendResponse dereferences it — the management thread crashes")
			}
		})
	}
	c.Decide(true, "R17.8", "response-parameters-built-locally", "-", fmt.Sprintf("%d makeControlResponse calls inspected", nResp), "")
	c.Floor("R17.8", "makeControlResponse call sites", nResp, 20)

	// ---- R17.9
	nConv := 0
	for _, fn := range p.FuncsIn(pkg) {
		if strings.HasSuffix(p.File(fn.Pos()), "_test.go") {
			continue
		}
		var effects []ssa.Instruction
		var src ssa.Value
		core.Instrs(fn, func(in ssa.Instruction) {
			var cv ssa.Value
			var operand ssa.Value
			switch x := in.(type) {
			case *ssa.Convert:
				cv, operand = x, x.X
			case *ssa.ChangeType:
				cv, operand = x, x.X
			default:
				return
			}
			if nt, ok := cv.Type().(*types.Named); !ok || nt.Obj().Name() != "Persistency" {
				return
			}
			if !isDerefOfField(operand, "FacePersistency") {
				return
			}
			// adopted (reaches a call of fw/face), not merely logged
			adopted := false
			seen := map[ssa.Value]bool{}
			var walk func(v ssa.Value)
			walk = func(v ssa.Value) {
				if seen[v] {
					return
				}
				seen[v] = true
				for _, r := range core.Refs(v) {
					switch y := r.(type) {
					case *ssa.Phi:
						walk(y)
					case ssa.CallInstruction:
						if id, ok := core.Callee(y.Common()); ok && id.Pkg == "fw/face" {
							adopted = true
						}
					}
				}
			}
			walk(cv)
			if adopted {
				effects = append(effects, in)
				src = operand
			}
		})
		if len(effects) == 0 {
			continue
		}
		nConv += len(effects)
		c.Funcs[core.FuncName(fn)] = true
		inRange := &core.Atom{Name: "FacePersistency == a persistency", Match: func(cond ssa.Value) (int, int) {
			op, x, y, ok := core.Cmp(cond)
			if !ok || (op != token.EQL && op != token.NEQ) {
				return 0, 0
			}
			if _, isC := core.ConstInt(x); isC {
				x, y = y, x
			}
			k, isC := core.ConstInt(y)
			if !isC || k < 0 || k > 2 || !isDerefOfField(core.StripConv(x), "FacePersistency") {
				return 0, 0
			}
			if op == token.EQL {
				return 1, 0
			}
			return 0, 1
		}}
		_ = src
		// edges asserting that the parameter is absent cannot lead to the conversion, which
		// dereferences it (R17.6): cut them too, so that the absent-at-validation /
		// present-at-use combination is not taken for a path
		present := &core.Atom{Name: "FacePersistency != nil", Match: func(cond ssa.Value) (int, int) {
			op, x, y, ok := core.Cmp(cond)
			if !ok || (op != token.EQL && op != token.NEQ) {
				return 0, 0
			}
			if core.IsNilConst(x) {
				x, y = y, x
			}
			if !core.IsNilConst(y) {
				return 0, 0
			}
			if _, isF := core.FieldOf(x, "FacePersistency"); !isF {
				return 0, 0
			}
			return core.Iff(op == token.NEQ)
		}}
		cut, per := core.CutEdgesDeep(fn, pos(inRange), neg(present))
		for e := range core.FlagCuts(fn, effects) {
			cut[e] = true
		}
		bad := ""
		for _, e := range effects {
			if path := core.ReachInstr(fn, e, cut, nil); path != nil {
				bad = c.Pos(e) + " via " + p.PathString(path)
			}
		}
		c.Decide(bad == "" && per[0] > 0, "R17.9", "persistency-number-validated:"+core.FuncName(fn), p.Pos(fn.Pos()), fmt.Sprintf("%d conversions of the FacePersistency parameter, each behind a comparison with a persistency", len(effects)), core.FuncName(fn)+" turns the FacePersistency number of the command into a face.Persistency without having compared it with any persistency on some path ("+bad+"): a value such as 99 is answered 200 and stored on the face")
	}
	c.Floor("R17.9", "adopted conversions of the FacePersistency parameter", nConv, 2)
}

// c17Round4b — rules prompted by the second hunt on the repaired tree.
//
// R17.13 a status dataset larger than one packet is segmented, or refused by a test on its
// size IN BYTES: a guard that measures an enc.Wire with len() counts buffers, never fires,
// and the oversize Data is dropped by the internal face — the dataset Interest is never
// answered once the tables are moderately large. (Known finding on the current tree.)
//
// R17.14 a RIB refresh withdraws from the FIB entry only what the RIB installed there:
// clearing the whole entry also removes next hops that fib/add-nexthop installed and — for
// the management prefix — the next hop to the management thread itself. (Known finding;
// same construct as C16 R16.4.)
//
// R17.15 on a face that does not fragment, an MTU below the maximum packet size is refused:
// the TCP branch of faces/create sets an MTU only behind a test against a bound ≥ the
// maximum packet size, and faces/update chooses its lower bound by whether the face's link
// service fragments.
//
// R17.16 a period of a command (ExpirationPeriod, milliseconds) is scaled to a
// time.Duration only behind an upper bound the longest Duration can hold.
func c17Round4b(c *core.Ctx) {
	p := c.P
	pkg := core.ModPath + "/fw/mgmt"
	maxPkt := int64(8800)
	if o, ok := p.Pkgs[core.ModPath+"/fw/defn"].Types.Scope().Lookup("MaxNDNPacketSize").(*types.Const); ok {
		if v, ok := constInt64(o); ok {
			maxPkt = v
		}
	}
	// ---- R17.13
	if ms := c.Fn("R17.13", "fw/mgmt", "", "makeStatusDataset"); ms != nil {
		bad := ""
		nMake := 0
		core.InstrsDeep(ms, func(in ssa.Instruction) {
			if ci, ok := in.(ssa.CallInstruction); ok {
				if id, okID := core.Callee(ci.Common()); okID && id.Name == "MakeData" {
					nMake++
				}
			}
			iff, ok := in.(*ssa.If)
			if !ok {
				return
			}
			_, x, y, okC := core.Cmp(iff.Cond)
			if !okC {
				return
			}
			for _, pair := range [][2]ssa.Value{{x, y}, {y, x}} {
				l, isLen := core.LenOf(core.StripConv(pair[0]))
				k, isC := core.ConstInt(pair[1])
				if !isLen || !isC || k < 256 {
					continue
				}
				if sl, isS := l.Type().Underlying().(*types.Slice); isS {
					if _, inner := sl.Elem().Underlying().(*types.Slice); inner {
						bad = c.Pos(iff)
					}
				}
			}
		})
		c.Decide(nMake > 0 && bad == "", "R17.13", "dataset-size-measured-in-bytes", p.Pos(ms.Pos()), "no size guard of the status dataset measures a list of buffers with len()", "makeStatusDataset compares len(dataset) with a byte limit at "+bad+", but dataset is an enc.Wire and len() counts its buffers: the guard never fires, one Data larger than the maximum packet size is built, the internal face drops it, and fib/list, rib/list or faces/list are never answered once the dataset passes about 8.7 kB (roughly 190 FIB entries or 110 faces) — the dataset lists nothing although every command that filled the tables reported 200")
	}
	// ---- R17.14
	if un := c.Fn("R17.14", "fw/table", "RibEntry", "updateNexthopsEnc"); un != nil {
		var clears []string
		core.InstrsDeep(un, func(in ssa.Instruction) {
			if ci, ok := in.(ssa.CallInstruction); ok && ci.Common().IsInvoke() && (ci.Common().Method.Name() == "ClearNextHopsEnc" || ci.Common().Method.Name() == "SetNextHopsEnc") {
				clears = append(clears, c.Pos(in))
			}
		})
		c.Decide(len(clears) == 0, "R17.14", "rib-refresh-withdraws-only-its-own-nexthops", p.Pos(un.Pos()), "the RIB refresh does not clear the whole FIB entry", "RibEntry.updateNexthopsEnc replaces or clears the whole FIB entry of the prefix ("+strings.Join(clears, ", ")+") with the RIB's next hops: rib/register — or a rib/unregister that matches no route — deletes next hops that fib/add-nexthop installed, and rib/register Name=/localhost/nfd on any other face deletes the next hop to the management thread, after which no command is ever answered")
	}
	// ---- R17.15
	nTcp := 0
	for _, fn := range p.FuncsIn(pkg) {
		if strings.HasSuffix(p.File(fn.Pos()), "_test.go") {
			continue
		}
		for _, ci := range core.FindCalls(fn, core.CalleeID{Pkg: "fw/face", Recv: "*", Name: "SetMTU"}) {
			recv, _ := core.CallArgs(ci.Common())
			if recv == nil {
				continue
			}
			if fa, isFA := core.Strip(recv).(*ssa.FieldAddr); isFA { // promoted from the embedded base
				recv = fa.X
			}
			pt, isPtr := recv.Type().Underlying().(*types.Pointer)
			if !isPtr {
				continue
			}
			nt, isN := pt.Elem().(*types.Named)
			if !isN || !strings.Contains(nt.Obj().Name(), "TCP") {
				continue
			}
			nTcp++
			c.Funcs[core.FuncName(fn)] = true
			full := &core.Atom{Name: "*params.Mtu < maximum packet size", Match: func(cond ssa.Value) (int, int) {
				op, x, y, ok := core.CmpOrient(cond, func(v ssa.Value) bool { return isDerefOfField(v, "Mtu") })
				if !ok || !isDerefOfField(x, "Mtu") {
					return 0, 0
				}
				k, isC := core.ConstInt(y)
				if !isC {
					return 0, 0
				}
				switch {
				case op == token.LSS && k >= maxPkt, op == token.LEQ && k >= maxPkt-1:
					return 1, -1
				case op == token.GEQ && k >= maxPkt, op == token.GTR && k >= maxPkt-1:
					return -1, 1
				}
				return 0, 0
			}}
			present := atomValNonNil("params.Mtu!=nil", func(v ssa.Value) bool { _, ok := core.FieldOf(v, "Mtu"); return ok })
			g := core.GateDeep(fn, []ssa.Instruction{ci}, neg(full), neg(present))
			c.Decide(g.OK && g.PerLit[0] > 0, "R17.15", "stream-face-mtu-not-below-a-packet:"+core.FuncName(fn), c.Pos(ci), "the MTU of a TCP face is set only behind Mtu >= maximum packet size", core.FuncName(fn)+" sets the MTU of a TCP face, whose link service does not fragment, without having refused values below the maximum packet size: the command is answered 200 and the face then drops every packet longer than the MTU")
		}
	}
	c.Floor("R17.15", "SetMTU on a TCP transport in fw/mgmt", nTcp, 1)
	if up := c.Fn("R17.15", "fw/mgmt", "FaceModule", "update"); up != nil {
		// the lower bound of the MTU depends on whether the selected face fragments
		reads := false
		core.InstrsDeep(up, func(in ssa.Instruction) {
			if fa, ok := in.(*ssa.FieldAddr); ok {
				if _, f := core.FieldAddrName(fa); f == "IsFragmentationEnabled" {
					reads = true
				}
			}
			if fl, ok := in.(*ssa.Field); ok {
				if st, okS := fl.X.Type().Underlying().(*types.Struct); okS && st.Field(fl.Field).Name() == "IsFragmentationEnabled" {
					reads = true
				}
			}
		})
		chosen := false
		core.InstrsDeep(up, func(in ssa.Instruction) {
			iff, ok := in.(*ssa.If)
			if !ok {
				return
			}
			_, x, y, okC := core.CmpOrient(iff.Cond, func(v ssa.Value) bool { return isDerefOfField(v, "Mtu") })
			if !okC || !isDerefOfField(x, "Mtu") {
				return
			}
			if phi, isPhi := core.StripConv(y).(*ssa.Phi); isPhi {
				for _, e := range phi.Edges {
					if k, okK := core.ConstInt(core.StripConv(e)); okK && k >= maxPkt {
						chosen = true
					}
				}
			}
		})
		c.Decide(reads && chosen, "R17.15", "update-mtu-bound-knows-fragmentation", p.Pos(up.Pos()), "faces/update compares the MTU with a minimum that is the maximum packet size when the face does not fragment", "faces/update refuses a small MTU by one constant for every face: on a face whose link service does not fragment (TCP, Unix, WebSocket) an MTU below the maximum packet size is accepted with 200 and the face then drops every packet longer than it")
	}
	// ---- R17.16
	nMul, bad := 0, ""
	for _, fn := range p.FuncsIn(pkg) {
		if strings.HasSuffix(p.File(fn.Pos()), "_test.go") {
			continue
		}
		n, b := durationScalings(c, fn)
		nMul += n
		if b != "" {
			bad = b
		}
	}
	c.Decide(bad == "", "R17.16", "command-period-bounded-before-scaling", "-", fmt.Sprintf("%d scalings of a command parameter to a time.Duration, each behind an upper bound", nMul), "a management handler scales a 64-bit period of the command to a time.Duration without an upper bound ("+bad+"): ExpirationPeriod values above 9223372036854 ms wrap to zero, to another period or to a negative one, the command is answered 200 and the response and rib/list report the wrapped value")
	c.Floor("R17.16", "scalings of a command parameter to a Duration in fw/mgmt", nMul, 1)
	// ---- R17.20 … and a 64-bit number of the command that becomes a time.Duration as it is
	// (nanoseconds) does so only behind an upper bound: from 2^63 on the signed duration is
	// negative — accepted with 200 and stored (BaseCongestionMarkingInterval)
	nConv := 0
	for _, fn := range p.FuncsIn(pkg) {
		if strings.HasSuffix(p.File(fn.Pos()), "_test.go") {
			continue
		}
		core.Instrs(fn, func(in ssa.Instruction) {
			cv, ok := in.(*ssa.Convert)
			if !ok {
				return
			}
			n, isN := cv.Type().(*types.Named)
			if !isN || n.Obj().Pkg() == nil || n.Obj().Pkg().Path() != "time" || n.Obj().Name() != "Duration" {
				return
			}
			bt, isB := cv.X.Type().Underlying().(*types.Basic)
			if !isB || bt.Kind() != types.Uint64 {
				return
			}
			// a field of the decoded parameters
			u, isU := core.Strip(cv.X).(*ssa.UnOp)
			if !isU {
				return
			}
			if _, path := core.FieldPath(u); len(path) == 0 {
				// *p with p an optional (pointer) field of the parameters
				if _, path2 := core.FieldPath(u.X); len(path2) == 0 {
					return
				}
			}
			if len(core.Refs(cv)) == 1 {
				if bo, isBo := core.Refs(cv)[0].(*ssa.BinOp); isBo && bo.Op == token.MUL {
					other := bo.Y
					if other == ssa.Value(cv) {
						other = bo.X
					}
					if k, isC := core.ConstInt(other); !isC || k != 1 {
						return // a scaling by a unit above one: R17.16
					}
				}
			}
			nConv++
			x := cv.X
			bounded := &core.Atom{Name: "value ≤ MaxInt64", Match: func(cond ssa.Value) (int, int) {
				op, a, b, okC := core.Cmp(cond)
				if !okC {
					return 0, 0
				}
				if _, isC := core.ConstInt(b); !isC {
					if _, isC2 := b.(*ssa.Const); !isC2 {
						return 0, 0
					}
				}
				sameField := func(a2, b2 ssa.Value) bool {
					ua, okA := core.StripConv(a2).(*ssa.UnOp)
					ub, okB := core.StripConv(b2).(*ssa.UnOp)
					if !okA || !okB {
						return false
					}
					_, pa := core.FieldPath(ua.X)
					_, pb := core.FieldPath(ub.X)
					return len(pa) > 0 && len(pb) > 0 && pa[len(pa)-1] == pb[len(pb)-1]
				}
				if !(core.StripConv(a) == core.StripConv(x) || core.Same(a, x) || sameField(a, x)) {
					return 0, 0
				}
				switch op {
				case token.GTR, token.GEQ:
					return -1, 1
				case token.LEQ, token.LSS:
					return 1, -1
				}
				return 0, 0
			}}
			root := core.RootOf(fn)
			fieldName := ""
			if _, pth := core.FieldPath(u.X); len(pth) > 0 {
				fieldName = pth[len(pth)-1]
			}
			present := &core.Atom{Name: "parameter present", Match: func(cond ssa.Value) (int, int) {
				op, a, b, okC := core.Cmp(cond)
				if !okC || (op != token.EQL && op != token.NEQ) {
					return 0, 0
				}
				if core.IsNilConst(a) {
					a, b = b, a
				}
				if !core.IsNilConst(b) {
					return 0, 0
				}
				if _, pth := core.FieldPath(a); fieldName != "" && len(pth) > 0 && pth[len(pth)-1] == fieldName {
					return core.Iff(op == token.NEQ)
				}
				return 0, 0
			}}
			g := core.GateDeep(root, []ssa.Instruction{in}, pos(bounded), neg(present))
			if !g.OK {
				// the validity-flag idiom: `if bad { valid = false }` … `if !valid { refuse; return }`
				cuts, per := core.CutEdges(root, pos(bounded), neg(present))
				for e := range core.FlagCuts(root, []ssa.Instruction{in}) {
					cuts[e] = true
				}
				if per[0] > 0 && core.ReachInstr(root, in, cuts, nil) == nil {
					g.OK = true
					g.PerLit = []int{per[0]}
				}
			}
			c.Decide(g.OK && g.PerLit[0] > 0, "R17.20", fmt.Sprintf("command-nanoseconds-bounded:%s:%s", core.FuncName(fn), describeValue(x)), c.Pos(in), "the number becomes a Duration only behind an upper bound", core.FuncName(fn)+" converts "+describeValue(x)+" of the command to a time.Duration without an upper bound: values from 2^63 on become negative durations, the command is answered 200 and the negative interval is stored (it removes the rate limit on congestion marks)")
		})
	}
	c.Extra["command_nanosecond_conversions"] = nConv
}

// c17DatasetFields — R17.17 "each status dataset lists exactly the current table contents":
// a field of a status dataset that is filled from an accessor named like a field of the same
// dataset is filled from the accessor of ITS OWN name (NOutBytes from NOutBytes(), not from
// NInBytes()). Stores into the mgmt_2022 status structs anywhere in fw/mgmt are compared.
func c17DatasetFields(c *core.Ctx) {
	p := c.P
	pkg := core.ModPath + "/fw/mgmt"
	nPairs := 0
	var bad []string
	for _, fn := range p.FuncsIn(pkg) {
		if strings.HasSuffix(p.File(fn.Pos()), "_test.go") {
			continue
		}
		core.Instrs(fn, func(in ssa.Instruction) {
			st, ok := in.(*ssa.Store)
			if !ok {
				return
			}
			fa, ok := st.Addr.(*ssa.FieldAddr)
			if !ok {
				return
			}
			stt, okS := core.Deref(fa.X.Type()).Underlying().(*types.Struct)
			if !okS || !strings.Contains(core.TypePkgPath(core.Deref(fa.X.Type())), "mgmt_2022") {
				return
			}
			field := stt.Field(fa.Field).Name()
			// the accessor the value comes from (through conversions / IdPtr-style wrappers)
			v := core.StripConv(st.Val)
			var meth string
			for d := 0; d < 3 && v != nil; d++ {
				cl, isCall := core.Strip(v).(*ssa.Call)
				if !isCall {
					break
				}
				if cl.Call.IsInvoke() {
					meth = cl.Call.Method.Name()
					break
				}
				if cal := cl.Call.StaticCallee(); cal != nil && cal.Signature.Recv() != nil {
					meth = cal.Name()
					break
				}
				if len(cl.Call.Args) == 1 { // a wrapper such as utils.IdPtr(x)
					v = core.StripConv(cl.Call.Args[0])
					continue
				}
				break
			}
			if meth == "" {
				return
			}
			named := false
			for i := 0; i < stt.NumFields(); i++ {
				if stt.Field(i).Name() == meth {
					named = true
				}
			}
			if !named {
				return
			}
			nPairs++
			c.Funcs[core.FuncName(fn)] = true
			if meth != field {
				bad = append(bad, fmt.Sprintf("%s is filled from %s() in %s at %s", field, meth, core.FuncName(fn), c.Pos(in)))
			}
		})
	}
	c.Decide(len(bad) == 0, "R17.17", "dataset-field-from-its-own-accessor", "-", fmt.Sprintf("%d dataset fields filled from an accessor named like a field of the dataset, each from its own", nPairs), "a status dataset field is filled from the accessor of another field ("+strings.Join(bad, "; ")+"): the dataset does not list the current contents")
	c.Floor("R17.17", "dataset fields filled from like-named accessors", nPairs, 6)
}

// c17DatasetItemFieldsPerItem — R17.23 "datasets list exactly the current table": the
// optional (pointer) fields of an item of a status dataset are decided for that item. A
// value that is carried round the loop over the table's entries — a variable declared
// outside the loop and assigned only when the entry has the property — gives an entry
// without the property the value of an earlier one (a permanent route listed after an
// expiring one shows that one's expiration period). No store into a field of a freshly
// built mgmt_2022 item takes a pointer that reaches it through a phi of the header of a
// loop around the store.
func c17DatasetItemFieldsPerItem(c *core.Ctx) {
	p := c.P
	n, bad := 0, ""
	for _, fn := range p.FuncsIn(core.ModPath + "/fw/mgmt") {
		if strings.HasSuffix(p.File(fn.Pos()), "_test.go") {
			continue
		}
		core.Instrs(fn, func(in ssa.Instruction) {
			st, ok := in.(*ssa.Store)
			if !ok {
				return
			}
			fa, ok := st.Addr.(*ssa.FieldAddr)
			if !ok {
				return
			}
			if _, isPtr := st.Val.Type().Underlying().(*types.Pointer); !isPtr {
				return
			}
			nt, _ := core.Deref(fa.X.Type()).(*types.Named)
			if nt == nil || nt.Obj().Pkg() == nil || !strings.HasSuffix(nt.Obj().Pkg().Path(), "/std/ndn/mgmt_2022") {
				return
			}
			hs := enclosingLoops(in.Block())
			if len(hs) == 0 {
				return
			}
			n++
			seen := map[ssa.Value]bool{}
			var walk func(v ssa.Value, d int)
			walk = func(v ssa.Value, d int) {
				v = core.Strip(v)
				if v == nil || seen[v] || d > 6 {
					return
				}
				seen[v] = true
				phi, isPhi := v.(*ssa.Phi)
				if !isPhi {
					return
				}
				for _, h := range hs {
					if phi.Block() == h {
						_, f := core.FieldAddrName(fa)
						bad = fmt.Sprintf("%s.%s at %s", nt.Obj().Name(), f, c.Pos(in))
					}
				}
				for _, e := range phi.Edges {
					walk(e, d+1)
				}
			}
			walk(st.Val, 0)
		})
	}
	c.Decide(bad == "", "R17.23", "dataset-item-fields-decided-per-item", "-", fmt.Sprintf("%d optional fields of dataset items stored inside loops over a table, none from a value carried round the loop", n), "a status dataset fills an optional field of an item from a variable that is carried round the loop over the entries ("+bad+"): an entry without the property is listed with the value of an earlier entry — the dataset does not describe the current table")
	c.Floor("R17.23", "optional fields of dataset items stored inside loops in fw/mgmt", n, 1)
}

// isFaceLookup: a call that answers "does the face with this id still exist". The face
// table's own Get always is one. dispatch.GetFace is one as long as face.Table.Remove takes
// the face out of the dispatch table before it cleans the face's routes and next hops up
// (then a face found there has not had its clean-up yet, exactly as with the face table);
// when the dispatch entry outlives the clean-up, a command that finds the face there
// installs a route that nothing removes.
func isFaceLookup(p *core.Prog, id core.CalleeID) bool {
	if id.Name == "Get" && id.Recv == "Table" && id.Pkg == "fw/face" {
		return true
	}
	if id.Name != "GetFace" || id.Pkg != "fw/dispatch" {
		return false
	}
	rm := p.Func("fw/face", "Table", "Remove")
	if rm == nil {
		return false
	}
	var cleanups []ssa.Instruction
	core.Instrs(rm, func(in ssa.Instruction) {
		if ci, ok := in.(ssa.CallInstruction); ok {
			if cid, okC := core.Callee(ci.Common()); okC && (cid.Name == "CleanUpFace" || cid.Name == "cleanUpFibNextHops") {
				cleanups = append(cleanups, in)
			}
		}
	})
	if len(cleanups) == 0 {
		return false
	}
	for _, cu := range cleanups {
		if !core.Precedes(rm, cu, func(x ssa.Instruction) bool {
			_, ok := core.IsCall(x, core.CalleeID{Pkg: "fw/dispatch", Name: "RemoveFace"})
			return ok
		}) {
			return false
		}
	}
	return true
}
