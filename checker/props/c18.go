package props

import (
	"fmt"
	"go/token"
	"go/types"
	"sort"
	"strings"

	"ndndcheck/core"

	"golang.org/x/tools/go/ssa"
)

// C18 — Distance-vector routing converges to shortest paths (narrow claim).
func C18(c *core.Ctx) {
	c.Explain = "Narrow claim. Convergence, fixed points and bounded exchange counts over all topologies and delivery orders cannot be decided from the shape of the code and are NOT decided. Decided structural necessary conditions: (R18.1) Router.ribUpdate conforms clause by clause to dv/SPEC.md 'Update Processing': the cost passed to Rib.Set is entry.Cost+1, or — only on the path asserting that the advertised next hop is this router and OtherCost < infinity — entry.OtherCost+1; Rib.Set is unreachable when cost ≥ infinity; the destination and neighbour arguments are the entry's destination and the advertising neighbour; the neighbour's column is reset before the loop; (R18.2) every call that changes the RIB (Set outside start-up, RemoveNextHop, DirtyResetNextHop) reaches Rib.Prune before the function returns, and Prune deletes exactly on the edge asserting best cost == infinity — so Advert(), which does not filter, can only list finite destinations; (R18.3) removing a dead neighbour is followed by RemoveNextHop for it; (R18.4) RibEntry.refresh selects best and second best with a deterministic tie-break (cost, then hop id) and demotes the previous best to second best."
	c.RuleText = "instances: the Rib.Set call of ribUpdate and its cost phi edges, every RIB-mutating call site in package dv/dv (discovered), Prune's delete, the selection branches of refresh. Non-trivial = has a phi edge, branch edge or path to decide."
	p := c.P
	inf := int64(16)
	if v, ok := lookupConst(p, "dv/config", "CostInfinity"); ok {
		inf = v
	}
	isInf := func(v ssa.Value) bool {
		k, ok := core.ConstInt(v)
		return ok && k == inf
	}

	ru := c.Fn("R18.1", "dv/dv", "Router", "ribUpdate")
	if ru != nil {
		sets := core.FindCallsDeep(ru, core.CalleeID{Pkg: "dv/table", Recv: "Rib", Name: "Set"})
		c.Floor("R18.1", "Rib.Set calls in ribUpdate", len(sets), 1)
		ns := ssa.Value(ru.Params[1])
		for _, ci := range sets {
			_, a := core.CallArgs(ci.Common())
			cost := core.Strip(a[2])
			// entry value: element of ns.Advert.Entries
			var entry ssa.Value
			if _, path := core.FieldPath(a[0]); len(path) >= 2 && path[len(path)-1] == "Name" && path[len(path)-2] == "Destination" {
				root, _ := core.FieldPath(a[0])
				entry = root
			}
			// the loop may sit in a worker split off ribUpdate: its neighbour parameter is
			// then the wrapper's
			restoreRoot := core.WithRoot(ru)
			okArgs := entry != nil && isFieldLoad(a[1], ns, "Name")
			if okArgs {
				ls := (&core.Slicer{P: p, Root: ru}).Leaves(entry)
				okArgs = len(ls) == 1 && (ls[0].Val == ns || core.Same(ls[0].Val, ns)) && strings.Join(ls[0].Via, "") == ".Advert.Entries[]"
			}
			restoreRoot()
			c.Decide(okArgs, "R18.1", "set-arguments", c.Pos(ci), "Set(entry.Destination.Name, neighbour.Name, cost) for entries of the neighbour's advertisement", "Rib.Set is not called with the advertised destination and the advertising neighbour")
			// cost phi edges
			isSelf := atomCallTrue("nexthop-is-self", func(cl *ssa.Call) bool {
				cc, ok := core.IsCall(cl, core.CalleeID{Pkg: "std/encoding", Recv: "Name", Name: "Equal"})
				if !ok {
					return false
				}
				r, aa := core.CallArgs(cc)
				_, p1 := core.FieldPath(r)
				isNH := len(p1) >= 2 && p1[len(p1)-1] == "Name" && p1[len(p1)-2] == "NextHop"
				return isNH && isCallTo(aa[0], core.CalleeID{Pkg: "dv/config", Recv: "Config", Name: "RouterName"})
			})
			otherFinite := &core.Atom{Name: "OtherCost<infinity", Match: func(cond ssa.Value) (int, int) {
				op, x, y, ok := core.Cmp(cond)
				if !ok || !isInf(y) {
					return 0, 0
				}
				if _, okF := core.FieldOf(x, "OtherCost"); !okF {
					return 0, 0
				}
				switch op {
				case token.LSS:
					return 1, -1
				case token.GEQ:
					return -1, 1
				}
				return 0, 0
			}}
			var edges []string
			okCost := true
			// the cost may be computed by a private helper of ribUpdate: follow it there
			costV := core.Resolve(cost)
			cf := ru
			if in, ok := costV.(ssa.Instruction); ok && in.Parent() != nil {
				cf = in.Parent()
			}
			phi, isPhi := costV.(*ssa.Phi)
			check := func(v ssa.Value, pred, join *ssa.BasicBlock) {
				v = core.Strip(v)
				if isInf(v) {
					edges = append(edges, "infinity")
					return
				}
				b, isB := v.(*ssa.BinOp)
				if !isB || b.Op != token.ADD {
					okCost = false
					edges = append(edges, "?")
					return
				}
				k, isC := core.ConstInt(core.Resolve(b.Y))
				fld := ""
				if _, okF := core.FieldOf(b.X, "Cost"); okF {
					fld = "Cost"
				} else if _, okF := core.FieldOf(b.X, "OtherCost"); okF {
					fld = "OtherCost"
				}
				base, _ := core.FieldOf(b.X, fld)
				if !isC || k != 1 || fld == "" || entry == nil || !core.Same(base, entry) {
					okCost = false
					edges = append(edges, "?")
					return
				}
				edges = append(edges, "entry."+fld+"+1")
				if fld == "Cost" && pred != nil {
					// poison reverse: the advertised cost is never used on a path asserting
					// that the advertised next hop is this router (join == nil: the value is
					// returned from block pred)
					cut, per := core.CutEdges(cf, neg(isSelf))
					if per[0] > 0 && (join == nil || !cut[core.Edge{From: pred, To: join}]) && core.ReachAvoiding(cf, cf.Blocks[0], map[*ssa.BasicBlock]bool{pred: true}, cut) != nil {
						okCost = false
						edges = append(edges, "(entry.Cost used although the advertised next hop is this router: no poison reverse)")
					}
				}
				if fld == "OtherCost" && pred != nil {
					// only under next-hop-is-self ∧ OtherCost < infinity
					for _, a := range []*core.Atom{isSelf, otherFinite} {
						cut, per := core.CutEdges(cf, pos(a))
						if per[0] == 0 || core.ReachAvoiding(cf, cf.Blocks[0], map[*ssa.BasicBlock]bool{pred: true}, cut) != nil {
							okCost = false
							edges = append(edges, "(OtherCost used without "+a.Name+")")
						}
					}
				}
			}
			if isPhi {
				// a value that reaches the installed cost through a chain of phis is judged
				// at the OUTERMOST edge it travels (a default computed before the poison-
				// reverse test and overridden inside it arrives through the edge that
				// bypasses the override)
				type phiVia struct {
					ph   *ssa.Phi
					pred *ssa.BasicBlock
				}
				seenVia := map[phiVia]bool{}
				var walk func(ph *ssa.Phi, seen map[*ssa.Phi]bool, oPred, oJoin *ssa.BasicBlock)
				walk = func(ph *ssa.Phi, seen map[*ssa.Phi]bool, oPred, oJoin *ssa.BasicBlock) {
					if seenVia[phiVia{ph, oPred}] {
						return
					}
					seenVia[phiVia{ph, oPred}] = true
					for i, e := range ph.Edges {
						pred, join := ph.Block().Preds[i], ph.Block()
						if oPred != nil {
							pred, join = oPred, oJoin
						}
						if p2, ok := core.Strip(e).(*ssa.Phi); ok {
							walk(p2, seen, pred, join)
							continue
						}
						check(e, pred, join)
					}
				}
				walk(phi, map[*ssa.Phi]bool{}, nil, nil)
			} else if rvs := core.ReturnedValues(costV); len(rvs) > 1 || (len(rvs) == 1 && rvs[0] != costV) {
				// the cost comes out of a helper with several returns: each return is an
				// alternative, decided in the helper's own control flow
				if cl, ok := costV.(*ssa.Call); ok && cl.Call.StaticCallee() != nil {
					cf = cl.Call.StaticCallee()
					restore := core.WithRoot(ru)
					core.Instrs(cf, func(in ssa.Instruction) {
						if r, ok := in.(*ssa.Return); ok && len(r.Results) == 1 && in.Block() != cf.Recover {
							if ph, isPh := core.Strip(r.Results[0]).(*ssa.Phi); isPh {
								for i, e := range ph.Edges {
									check(e, ph.Block().Preds[i], ph.Block())
								}
							} else {
								check(r.Results[0], r.Block(), nil)
							}
						}
					})
					restore()
				} else {
					check(costV, nil, nil)
				}
			} else {
				check(costV, nil, nil)
			}
			hasCost, hasOther := false, false
			for _, e := range edges {
				if e == "entry.Cost+1" {
					hasCost = true
				}
				if e == "entry.OtherCost+1" {
					hasOther = true
				}
			}
			c.Decide(okCost && hasCost && hasOther, "R18.1", "cost-clauses", c.Pos(ci), fmt.Sprintf("cost ∈ %v; OtherCost+1 only under next-hop-is-self ∧ OtherCost<infinity", edges), fmt.Sprintf("the cost installed by ribUpdate deviates from SPEC.md 'Update Processing' (cost sources %v): expected entry.cost+1, or entry.other+1 only when the advertised next hop is this router and other < INFINITY", edges))
			// skip unreachable
			unreach := &core.Atom{Name: "cost>=infinity", Match: func(cond ssa.Value) (int, int) {
				op, x, y, ok := core.Cmp(cond)
				if !ok || core.Strip(x) != cost || !isInf(y) {
					return 0, 0
				}
				switch op {
				case token.GEQ:
					return 1, -1
				case token.LSS:
					return -1, 1
				}
				return 0, 0
			}}
			g := core.GateDeep(ru, []ssa.Instruction{ci}, neg(unreach))
			c.Decide(g.OK && g.PassEdges > 0, "R18.1", "skip-unreachable", c.Pos(ci), "Set unreachable when cost ≥ infinity", "ribUpdate installs destinations whose cost reached infinity (count-to-infinity entries linger and are advertised)")
			// reset before the loop
			okReset := false
			for _, rc := range core.FindCallsDeep(ru, core.CalleeID{Pkg: "dv/table", Recv: "Rib", Name: "DirtyResetNextHop"}) {
				_, ra := core.CallArgs(rc.Common())
				if isFieldLoad(ra[0], ns, "Name") && !core.InLoop(rc.Block()) && core.PrecedesDeep(ru, ci, func(in ssa.Instruction) bool { return in == ssa.Instruction(rc) }) {
					okReset = true
				}
			}
			c.Decide(okReset, "R18.1", "reset-neighbour-column-first", c.Pos(ci), "DirtyResetNextHop(neighbour) precedes the update loop", "the neighbour's previous costs are not reset before its new advertisement is applied: destinations it no longer advertises keep their old cost")
		}
	}

	// ---- R18.2
	nMut := 0
	for _, fn := range p.FuncsIn(core.ModPath + "/dv/dv") {
		for _, ci := range core.FindCallsDeep(fn, core.CalleeID{Pkg: "dv/table", Recv: "Rib", Name: "Set"}, core.CalleeID{Pkg: "dv/table", Recv: "Rib", Name: "RemoveNextHop"}, core.CalleeID{Pkg: "dv/table", Recv: "Rib", Name: "DirtyResetNextHop"}) {
			fname := core.FuncName(fn)
			if fn.Name() == "NewRouter" || strings.HasPrefix(fn.Name(), "Start") || strings.HasPrefix(fn.Name(), "New") {
				c.Ok("R18.2", "prune-after-mutation:"+fname+":"+calleeName(ci), c.Pos(ci), "frozen exception: start-up registration of this router's own entry at cost 0")
				continue
			}
			nMut++
			c.Funcs[fname] = true
			fr := core.MustFollowDeep(fn, core.After(ci), func(in ssa.Instruction) bool {
				_, ok := core.IsCall(in, core.CalleeID{Pkg: "dv/table", Recv: "Rib", Name: "Prune"})
				return ok
			}, nil)
			c.Decide(fr.OK, "R18.2", "prune-after-mutation:"+fname+":"+calleeName(ci), c.Pos(ci), "the RIB mutation is followed by Rib.Prune on every path", fname+" changes the routing table ("+calleeName(ci)+") without pruning afterwards: destinations whose best cost became infinity stay in the table and are advertised")
		}
	}
	c.Floor("R18.2", "RIB mutation call sites in dv/dv", nMut, 3)
	if pr := c.Fn("R18.2", "dv/table", "Rib", "Prune"); pr != nil {
		var dels []ssa.Instruction
		core.InstrsDeep(pr, func(in ssa.Instruction) {
			if isMapDelete(in, "entries") {
				dels = append(dels, in)
			}
		})
		dead := &core.Atom{Name: "lowest1==infinity", Match: func(cond ssa.Value) (int, int) {
			op, x, y, ok := core.Cmp(cond)
			if !ok || !isInf(y) {
				return 0, 0
			}
			if _, okF := core.FieldOf(x, "lowest1"); !okF {
				return 0, 0
			}
			switch op {
			case token.EQL, token.GEQ:
				return 1, -1
			case token.NEQ, token.LSS:
				return -1, 1
			}
			return 0, 0
		}}
		g := core.GateDeep(pr, dels, pos(dead))
		okDel := len(dels) > 0 && g.OK && g.PassEdges > 0
		for _, f := range core.EdgeFacts(pr, dead) {
			if f.Holds && !core.MustFollowDeep(pr, core.Point{Block: f.E.To, Idx: 0}, func(in ssa.Instruction) bool { return isMapDelete(in, "entries") }, func(in ssa.Instruction) bool { return in.Block() == loopHeader(f.E.From) }).OK {
				okDel = false
			}
		}
		c.Decide(okDel, "R18.2", "prune-deletes-exactly-infinite", p.Pos(pr.Pos()), "an entry is deleted exactly on the edge asserting lowest1 == infinity", "Prune does not delete exactly the destinations whose best cost is infinity")
		// ... and the test is made for EVERY entry of the table, not only for those that
		// were marked dirty: an entry whose column was removed and refreshed elsewhere
		// (RemoveNextHop refreshes itself and clears the mark) is unreachable and clean
		{
			tests := map[*ssa.BasicBlock]bool{}
			for _, f := range core.EdgeFacts(pr, dead) {
				tests[f.E.From] = true
			}
			isTest := func(in ssa.Instruction) bool {
				_, isIf := in.(*ssa.If)
				return isIf && tests[in.Block()]
			}
			okEvery := false
			for b := range tests {
				if h := loopHeader(b); h != nil && everyIterationPasses(pr, h, isTest) {
					okEvery = true
				}
			}
			c.Decide(okEvery, "R18.2", "prune-tests-every-entry", p.Pos(pr.Pos()), "every iteration over the table tests the entry's best cost against infinity", "Prune skips the infinity test for some entries (for example those not marked dirty): a destination that became unreachable through RemoveNextHop stays in the table and is advertised with cost infinity")
		}
		// dirty entries are refreshed before the test
		ref := core.FindCallsDeep(pr, core.CalleeID{Pkg: "dv/table", Recv: "RibEntry", Name: "refresh"})
		c.Decide(len(ref) > 0, "R18.2", "prune-refreshes-dirty", p.Pos(pr.Pos()), "dirty entries are refreshed in Prune", "Prune does not recompute dirty entries before testing their best cost")
	}
	if ad := c.Fn("R18.2", "dv/table", "Rib", "Advert"); ad != nil {
		// cost fields come from lowest1 / lowest2 of the same entry
		ok := 0
		core.InstrsDeep(ad, func(in ssa.Instruction) {
			if _, v, okS := storeToField(in, "AdvEntry", "Cost"); okS {
				if _, okF := core.FieldOf(v, "lowest1"); okF {
					ok++
				}
			}
			if _, v, okS := storeToField(in, "AdvEntry", "OtherCost"); okS {
				if _, okF := core.FieldOf(v, "lowest2"); okF {
					ok++
				}
			}
		})
		c.Decide(ok == 2, "R18.2", "advert-costs", p.Pos(ad.Pos()), "Advert lists Cost=lowest1 and OtherCost=lowest2", "Advert does not advertise the best and second-best cost of each entry")
	}

	// ---- R18.3
	if cd := c.Fn("R18.3", "dv/dv", "Router", "checkDeadNeighbors"); cd != nil {
		rm := core.FindCallsDeep(cd, core.CalleeID{Pkg: "dv/table", Recv: "NeighborTable", Name: "Remove"})
		c.Floor("R18.3", "neighbour removals", len(rm), 1)
		for _, ci := range rm {
			_, a := core.CallArgs(ci.Common())
			fr := core.MustFollowDeep(cd, core.After(ci), func(in ssa.Instruction) bool {
				cc, ok := core.IsCall(in, core.CalleeID{Pkg: "dv/table", Recv: "Rib", Name: "RemoveNextHop"})
				if !ok {
					return false
				}
				_, b := core.CallArgs(cc)
				return core.Same(b[0], a[0])
			}, nil)
			c.Decide(fr.OK, "R18.3", "dead-neighbour-leaves-rib", c.Pos(ci), "removing a neighbour is followed by RemoveNextHop for the same name", "a dead neighbour is removed from the neighbour table but its routes stay in the RIB (destinations behind it are never withdrawn)")
			dead := atomCallTrue("neighbour-is-dead", callIs(core.CalleeID{Pkg: "dv/table", Recv: "NeighborState", Name: "IsDead"}))
			g := core.GateDeep(cd, []ssa.Instruction{ci}, pos(dead))
			c.Decide(g.OK && g.PassEdges > 0, "R18.3", "only-dead-neighbours-removed", c.Pos(ci), "neighbours are removed only on the IsDead() edge", "a live neighbour can be removed")
		}
	}

	// ---- R18.4 refresh
	if rf := c.Fn("R18.4", "dv/table", "RibEntry", "refresh"); rf != nil {
		c18Selection(c, rf)
	}
	// ---- R18.5 every change of an entry's cost column is followed by refresh() of that
	// entry (or marks it dirty for Prune) before the next entry is visited or the
	// function returns: best / second best are never left stale
	// the "needs refresh" mark: a bool field of RibEntry whose true value makes some
	// function call refresh() on that entry (Prune does) — found by role, not by name
	dirtyField := map[int]bool{}
	for _, fn := range p.FuncsIn(core.ModPath + "/dv/table") {
		for _, b := range fn.Blocks {
			iff, ok := b.Instrs[len(b.Instrs)-1].(*ssa.If)
			if !ok {
				continue
			}
			u, ok := core.Strip(iff.Cond).(*ssa.UnOp)
			if !ok || u.Op != token.MUL {
				continue
			}
			fa, ok := u.X.(*ssa.FieldAddr)
			if !ok || !isNamed(core.Deref(fa.X.Type()), "RibEntry") {
				continue
			}
			fr := core.MustFollow(fn, core.Point{Block: b.Succs[0], Idx: 0}, func(x ssa.Instruction) bool {
				ci, ok := x.(ssa.CallInstruction)
				if !ok {
					return false
				}
				id, ok := core.Callee(ci.Common())
				if !ok || id.Name != "refresh" {
					return false
				}
				r, _ := core.CallArgs(ci.Common())
				return core.Same(r, fa.X)
			}, func(x ssa.Instruction) bool { return x.Block() == b })
			// the true branch must reach refresh before looping back / returning
			if fr.OK && core.ReachInstrFrom(core.Point{Block: b.Succs[0], Idx: 0}, b.Instrs[0], nil, func(x ssa.Instruction) bool {
				ci, ok := x.(ssa.CallInstruction)
				if !ok {
					return false
				}
				id, ok := core.Callee(ci.Common())
				return ok && id.Name == "refresh"
			}) == nil {
				dirtyField[fa.Field] = true
			}
		}
	}
	nW := 0
	for _, fn := range p.FuncsIn(core.ModPath + "/dv/table") {
		if strings.HasSuffix(p.File(fn.Pos()), "_test.go") {
			continue
		}
		core.Instrs(fn, func(in ssa.Instruction) {
			var m ssa.Value
			if mu, ok := in.(*ssa.MapUpdate); ok {
				m = mu.Map
			} else if cl, ok := isBuiltinCall(in, "delete"); ok {
				m = cl.Call.Args[0]
			} else {
				return
			}
			ent, ok := core.FieldOf(m, "costs")
			if !ok || !isNamed(core.Deref(ent.Type()), "RibEntry") || isFreshObject(ent) {
				return
			}
			nW++
			fname := core.FuncName(fn)
			c.Funcs[fname] = true
			isB := func(x ssa.Instruction) bool {
				if ci, ok := x.(ssa.CallInstruction); ok {
					if id, ok := core.Callee(ci.Common()); ok && id.Pkg == "dv/table" && id.Recv == "RibEntry" && id.Name == "refresh" {
						r, _ := core.CallArgs(ci.Common())
						return core.Same(r, ent)
					}
				}
				if st, ok := x.(*ssa.Store); ok {
					if fa, ok := st.Addr.(*ssa.FieldAddr); ok && dirtyField[fa.Field] && isNamed(core.Deref(fa.X.Type()), "RibEntry") && core.Same(fa.X, ent) {
						b, isC := core.ConstBool(st.Val)
						return isC && b
					}
				}
				return false
			}
			var ok2 bool
			if h := loopHeader(in.Block()); h == nil {
				ok2 = core.MustFollowDeep(core.RootOf(fn), core.After(in), isB, nil).OK
			} else {
				// per iteration: neither the next iteration nor an exit of the loop is
				// reached from the write without passing the refresh
				ok2 = core.ReachInstrFrom(core.After(in), h.Instrs[0], nil, isB) == nil &&
					core.MustFollowDeep(core.RootOf(fn), core.After(in), isB, func(x ssa.Instruction) bool { return x == h.Instrs[0] }).OK
			}
			c.Decide(ok2, "R18.5", "cost-write-refreshed:"+fname, c.Pos(in), "the entry is refreshed (or marked dirty) on every path after its cost column changes", fname+" changes an entry's cost column and can move on without refreshing that entry: its best / second-best cost and next hop stay stale, so unreachable destinations keep a finite cost in the RIB and in advertisements")
		})
	}
	c.Floor("R18.5", "writes to RibEntry.costs", nW, 3)

	// ---- R18.6 a fetch that could not be sent is retried: in advertDataFetch, on the edges on
	// which MakeInterest or Express reported an error, a goroutine that fetches again is
	// started before the function returns (no callback follows a failed send, and the
	// neighbour's sequence number is already recorded, so nothing else would fetch again)
	if af := c.Fn("R18.6", "dv/dv", "Router", "advertDataFetch"); af != nil {
		startsRetry := func(in ssa.Instruction) bool {
			if _, isGo := in.(*ssa.Go); isGo {
				return true
			}
			cl, ok := in.(*ssa.Call)
			if !ok {
				return false
			}
			var fn *ssa.Function
			if mc, isMC := core.Strip(cl.Call.Value).(*ssa.MakeClosure); isMC {
				fn, _ = mc.Fn.(*ssa.Function)
			} else if f2, isF := cl.Call.Value.(*ssa.Function); isF {
				fn = f2
			}
			if fn == nil || fn.Blocks == nil || fn.Parent() != af {
				return false
			}
			hasGo := false
			core.Instrs(fn, func(x ssa.Instruction) {
				if _, isGo := x.(*ssa.Go); isGo {
					hasGo = true
				}
			})
			return hasGo
		}
		nErr, bad := 0, ""
		core.Instrs(af, func(in ssa.Instruction) {
			cl, ok := in.(*ssa.Call)
			if !ok || !cl.Call.IsInvoke() {
				return
			}
			m := cl.Call.Method.Name()
			if m != "MakeInterest" && m != "Express" {
				return
			}
			var errv ssa.Value = cl
			if m == "MakeInterest" {
				errv = nil
				for _, r := range core.Refs(cl) {
					if ex, isE := r.(*ssa.Extract); isE && ex.Index == 1 {
						errv = ex
					}
				}
			}
			if errv == nil {
				return
			}
			failed := atomNonNil(m+" error", errv)
			for _, f := range core.EdgeFacts(af, failed) {
				if !f.Holds {
					continue
				}
				nErr++
				if !core.MustFollow(af, core.Point{Block: f.E.To, Idx: 0}, startsRetry, nil).OK {
					bad = m + " at " + c.Pos(in)
				}
			}
		})
		c.Decide(nErr >= 2 && bad == "", "R18.6", "failed-advert-fetch-is-retried", p.Pos(af.Pos()), fmt.Sprintf("%d error edges, each followed by the start of a retry", nErr), "advertDataFetch returns on a failed "+bad+" without starting a retry: the neighbour's advertisement sequence number is already recorded, later Sync Interests with it are skipped, and the neighbour (with everything behind it) stays out of the routing table although its pings keep it alive")
	}

	// ---- R18.7 the neighbour table is shared between the Sync Interest handler, the dead-
	// neighbour check and the fetch goroutines: every use of Router.neighbors in dv/dv is made
	// with the router mutex held (a map read concurrent with a write aborts the process)
	{
		_, heldD := core.EntryLocks(p, core.ModPath+"/dv/dv")
		nUse := 0
		var unl []string
		for _, fn := range p.FuncsIn(core.ModPath + "/dv/dv") {
			if strings.HasSuffix(p.File(fn.Pos()), "_test.go") {
				continue
			}
			root := core.RootOf(fn)
			if root == nil {
				root = fn
			}
			if n := core.BaseName(root); n == "NewRouter" || n == "Start" || n == "Stop" {
				continue // before the handlers are attached / after they are detached
			}
			core.Instrs(fn, func(in ssa.Instruction) {
				ci, ok := in.(ssa.CallInstruction)
				if !ok {
					return
				}
				id, ok := core.Callee(ci.Common())
				if !ok || id.Recv != "NeighborTable" {
					return
				}
				nUse++
				if !heldD[fn][in]["W:Router.mutex"] && !heldD[fn][in]["R:Router.mutex"] {
					unl = append(unl, core.FuncName(fn)+"."+id.Name+" at "+c.Pos(in))
				}
			})
		}
		c.Decide(len(unl) == 0, "R18.7", "neighbour-table-under-router-mutex", "-", fmt.Sprintf("%d uses of the neighbour table, all with the router mutex held", nUse), "the neighbour table is used without the router mutex ("+strings.Join(unl, "; ")+") while the Sync Interest handler and the dead-neighbour check write it under the mutex: with neighbours coming up close together the runtime aborts with 'concurrent map read and map write'")
		c.Floor("R18.7", "uses of the neighbour table in dv/dv", nUse, 4)
		// and the state of a neighbour that the routing computation reads — the
		// advertisement and its sequence number — is read and written with the router
		// mutex held: an update that read the advertisement before it queued for the mutex
		// can run after the dead-neighbour check removed that neighbour, and re-installs
		// routes through it that nothing removes any more
		nNs := 0
		var unlNs []string
		for _, fn := range p.FuncsIn(core.ModPath + "/dv/dv") {
			if strings.HasSuffix(p.File(fn.Pos()), "_test.go") {
				continue
			}
			root := core.RootOf(fn)
			if root == nil {
				root = fn
			}
			if n := core.BaseName(root); n == "NewRouter" || n == "Start" || n == "Stop" {
				continue
			}
			core.Instrs(fn, func(in ssa.Instruction) {
				fa, ok := in.(*ssa.FieldAddr)
				if !ok {
					return
				}
				t, f := core.FieldAddrName(fa)
				if t != "NeighborState" || (f != "Advert" && f != "AdvertSeq") {
					return
				}
				nNs++
				if !heldD[fn][in]["W:Router.mutex"] && !heldD[fn][in]["R:Router.mutex"] {
					unlNs = append(unlNs, core.FuncName(fn)+" ."+f+" at "+c.Pos(in))
				}
			})
		}
		c.Decide(len(unlNs) == 0, "R18.7", "neighbour-advert-state-under-router-mutex", "-", fmt.Sprintf("%d accesses to a neighbour's advertisement / sequence number, all with the router mutex held", nNs), "a neighbour's advertisement state is read or written without the router mutex ("+strings.Join(unlNs, "; ")+"): a routing update that read it before queueing for the mutex can run after the dead-neighbour check removed the neighbour, and re-installs routes through it that nothing removes any more (they are advertised on, and the network does not converge to the true distances)")
		c.Floor("R18.7", "accesses to NeighborState.Advert / AdvertSeq in dv/dv", nNs, 3)
	}

	// ---- R18.10 the router's own entry is in the RIB before the handlers are attached (no
	// advertisement is served without it), and — like every other use of the RIB — with the
	// router mutex held; R18.11 the sequence number of the Sync Interest is read and written
	// under the mutex; R18.12 names built in dv/dv do not share storage with the
	// configuration's slices or a caller's (the aliasing rule of C15 R15.7 on this package)
	if st := c.Fn("R18.10", "dv/dv", "Router", "Start"); st != nil {
		_, heldS := core.EntryLocks(p, core.ModPath+"/dv/dv")
		var sets, regs []ssa.Instruction
		core.Instrs(st, func(in ssa.Instruction) {
			ci, ok := in.(ssa.CallInstruction)
			if !ok {
				return
			}
			id, ok := core.Callee(ci.Common())
			if !ok {
				return
			}
			if id.Recv == "Rib" && id.Name == "Set" {
				sets = append(sets, in)
			}
			if id.Recv == "Router" && id.Name == "register" {
				regs = append(regs, in)
			}
		})
		okOrder := len(sets) > 0 && len(regs) > 0
		for _, r := range regs {
			if !core.Precedes(st, r, func(x ssa.Instruction) bool {
				for _, s0 := range sets {
					if s0 == x {
						return true
					}
				}
				return false
			}) {
				okOrder = false
			}
		}
		okLock := len(sets) > 0
		for _, s0 := range sets {
			if !heldS[st][s0]["W:Router.mutex"] {
				okLock = false
			}
		}
		c.Decide(okOrder, "R18.10", "self-entry-before-the-handlers-are-attached", p.Pos(st.Pos()), "Rib.Set(self) precedes register() on every path of Start", "Router.Start attaches the Interest handlers before the router's own entry is in the RIB: an advertisement fetched in that window lacks the router itself, and because the entry is added later without a new sequence number the neighbours keep the wrong table until the next change")
		c.Decide(okLock, "R18.10", "self-entry-under-router-mutex", p.Pos(st.Pos()), "Rib.Set(self) in Start holds the router mutex", "Router.Start writes the RIB without the router mutex while the advertisement handler reads it (concurrent map read and map write)")
	}
	{
		_, heldQ := core.EntryLocks(p, core.ModPath+"/dv/dv")
		nAcc := 0
		var unl []string
		for _, fn := range p.FuncsIn(core.ModPath + "/dv/dv") {
			if strings.HasSuffix(p.File(fn.Pos()), "_test.go") {
				continue
			}
			root := core.RootOf(fn)
			if root == nil {
				root = fn
			}
			if n := core.BaseName(root); n == "NewRouter" {
				continue
			}
			core.Instrs(fn, func(in ssa.Instruction) {
				fa, ok := in.(*ssa.FieldAddr)
				if !ok {
					return
				}
				if t, f := core.FieldAddrName(fa); t != "Router" || f != "advertSyncSeq" {
					return
				}
				nAcc++
				if !heldQ[fn][in]["W:Router.mutex"] && !heldQ[fn][in]["R:Router.mutex"] {
					unl = append(unl, core.FuncName(fn)+" at "+c.Pos(in))
				}
			})
		}
		c.Decide(len(unl) == 0, "R18.11", "sync-sequence-number-under-router-mutex", "-", fmt.Sprintf("%d accesses to Router.advertSyncSeq, all with the router mutex held", nAcc), "the sequence number announced in Sync Interests is accessed without the router mutex ("+strings.Join(unl, "; ")+") while advertSyncNotifyNew increments it under the mutex: the heartbeat can announce a stale or torn number")
		c.Floor("R18.11", "accesses to Router.advertSyncSeq in dv/dv", nAcc, 2)
	}
	{
		sub := core.NewCtx(c.P, c.Prop, c.Tier)
		c15Aliasing(sub, core.ModPath+"/dv/dv")
		// … and in dv/config, where the Sync prefixes are derived from one another: two
		// appends to the same base name give two names that share their last slot
		c15Aliasing(sub, core.ModPath+"/dv/config")
		n := 0
		for _, o := range sub.Obls {
			if !strings.HasPrefix(o.Key, "R15.7:extended-name-owns-storage") {
				continue
			}
			n++
			d := o.Detail
			if o.Status != core.OK {
				d = "a name built in dv/dv shares its backing array with a slice it does not own (the configuration's prefix, read by several goroutines): " + d
			}
			c.Decide(o.Status == core.OK, "R18.12", "shared:"+o.Key, o.Pos, d, d)
		}
		c.Floor("R18.12", "appends that build a name in dv/dv", n, 1)
	}

	// ---- R18.13 (= C13 R13.9) an advertised cost is decoded from at most 8 octets: a longer
	// one would wrap (2^64 decodes as 0) and the destination is installed and re-advertised at
	// cost 1
	c.Import(C13, "R18.13", "an advertised cost of nine octets wraps around: 2^64 decodes as 0, the route is installed at cost 1 and re-advertised — the network converges to distances that are not the true ones", 1, func(k string) bool {
		return strings.HasPrefix(k, "R13.9:natural-number-length-bounded")
	})

	// ---- R18.9 a fetched advertisement is adopted only when its sequence number EQUALS the
	// one recorded for the neighbour (the latest announced): the reply to an earlier fetch,
	// arriving late, must not replace the newer advertisement that was already applied
	if ah := c.Fn("R18.9", "dv/dv", "Router", "advertDataHandler"); ah != nil {
		var stores []ssa.Instruction
		core.InstrsDeep(ah, func(in ssa.Instruction) {
			if _, _, ok := storeToField(in, "NeighborState", "Advert"); ok {
				stores = append(stores, in)
			}
		})
		same := &core.Atom{Name: "AdvertSeq == sequence number of the Data", Match: func(cond ssa.Value) (int, int) {
			op, x, y, ok := core.Cmp(cond)
			if !ok || (op != token.EQL && op != token.NEQ) {
				return 0, 0
			}
			_, fx := core.FieldOf(x, "AdvertSeq")
			_, fy := core.FieldOf(y, "AdvertSeq")
			if fx == fy {
				return 0, 0
			}
			return core.Iff(op == token.EQL)
		}}
		g := core.GateDeep(ah, stores, pos(same))
		c.Decide(len(stores) > 0 && g.OK && g.PassEdges > 0, "R18.9", "advert-adopted-only-for-the-recorded-sequence-number", p.Pos(ah.Pos()), fmt.Sprintf("%d stores of a neighbour's advertisement, behind AdvertSeq == seqNo", len(stores)), "advertDataHandler can adopt an advertisement whose sequence number differs from the one recorded for the neighbour (an order comparison instead of equality, or no test): the late reply to an earlier fetch replaces the newer advertisement already applied, and the routing table goes back to distances that are no longer true")
	}

	// ---- R18.8 an advertised cost is compared with infinity BEFORE the link cost is added:
	// costs are 64-bit numbers on the wire, and 2^64-1 + 1 wraps around to 0 — the
	// destination would be installed, and re-advertised, at cost 0
	if ru := c.Fn("R18.8", "dv/dv", "Router", "ribUpdate"); ru != nil {
		inf, _ := lookupConst(p, "dv/config", "CostInfinity")
		nAdd, bad := 0, ""
		core.InstrsDeep(ru, func(in ssa.Instruction) {
			b, ok := in.(*ssa.BinOp)
			if !ok || b.Op != token.ADD {
				return
			}
			fld := ""
			for _, f := range []string{"Cost", "OtherCost"} {
				if _, okF := core.FieldOf(core.StripConv(b.X), f); okF {
					fld = f
				}
			}
			if fld == "" {
				return
			}
			if bt, okB := b.Type().Underlying().(*types.Basic); !okB || bt.Kind() != types.Uint64 {
				return
			}
			nAdd++
			finite := &core.Atom{Name: "advertised " + fld + " < infinity", Match: func(cond ssa.Value) (int, int) {
				op, x, y, okC := core.Cmp(cond)
				if !okC || !core.Same(core.StripConv(x), core.StripConv(b.X)) {
					return 0, 0
				}
				k, isC := core.ConstInt(y)
				if !isC || k > inf {
					return 0, 0
				}
				switch op {
				case token.LSS:
					return 1, -1
				case token.GEQ:
					return -1, 1
				}
				return 0, 0
			}}
			g := core.GateDeep(ru, []ssa.Instruction{in}, pos(finite))
			if !(g.OK && g.PassEdges > 0) {
				bad = "entry." + fld + " at " + c.Pos(in)
			}
		})
		c.Decide(nAdd > 0 && bad == "", "R18.8", "cost-bounded-before-addition", p.Pos(ru.Pos()), fmt.Sprintf("%d additions to an advertised cost, each behind 'advertised cost < infinity'", nAdd), "ribUpdate adds the link cost to "+bad+" before that cost was compared with infinity: the wire-valid cost 2^64-1 wraps around to 0, the destination is installed as a cost-0 route and re-advertised with cost 0")
	}

	// ---- R18.17 "no advertisement ever lists …" / re-convergence: the advertisement a
	// router serves is built from its entries when it is asked for — every return of
	// Rib.Advert lies behind the iteration over the entries made in this call. An
	// advertisement remembered from an earlier call is right only if every change of an
	// entry drops it, and changes reach the entries through several doors (Set,
	// RemoveNextHop, Prune).
	if ad := c.Fn("R18.17", "dv/table", "Rib", "Advert"); ad != nil {
		var iters []ssa.Instruction
		core.InstrsDeep(ad, func(in ssa.Instruction) { // (the building loop may sit in a worker)
			if rg, ok := in.(*ssa.Range); ok {
				if _, okF := core.FieldOf(rg.X, "entries"); okF {
					iters = append(iters, in)
				}
			}
		})
		stale := ""
		core.Instrs(ad, func(in ssa.Instruction) {
			r, isR := in.(*ssa.Return)
			if !isR || in.Block() == ad.Recover || len(r.Results) == 0 || core.IsNilConst(core.Strip(r.Results[0])) {
				return
			}
			if !core.PrecedesDeep(ad, r, func(x ssa.Instruction) bool {
				for _, l := range iters {
					if x == l {
						return true
					}
				}
				return false
			}) {
				stale = c.Pos(r)
			}
		})
		c.Decide(stale == "" && len(iters) > 0, "R18.17", "advertisement-built-when-asked-for", p.Pos(ad.Pos()), "every return of Rib.Advert lies behind the iteration over the entries", "Rib.Advert can return an advertisement that was not built from the entries in this call (return at "+stale+"): after a change that does not drop the remembered one (a next hop removed with no destination deleted) the router keeps serving the old cost and next hop, and its neighbours never re-converge")
		c.Floor("R18.17", "iterations over the entries in Rib.Advert", len(iters), 1)
	}
	// ---- R18.18 a removed neighbour's advertisement is forgotten: ribUpdate, started as a
	// goroutine when an advertisement arrives, recognises a neighbour that was removed in
	// the meantime by its nil Advert. While ribUpdate has that test, NeighborState.delete
	// stores nil to Advert on every path — otherwise the pending update re-installs all
	// routes through the removed neighbour and nothing withdraws them.
	{
		ru := c.Fn("R18.18", "dv/dv", "Router", "ribUpdate")
		del := c.Fn("R18.18", "dv/table", "NeighborState", "delete")
		if ru != nil && del != nil {
			tests := false
			core.InstrsDeep(ru, func(in ssa.Instruction) {
				if iff, ok := in.(*ssa.If); ok {
					if op, x, y, okC := core.Cmp(iff.Cond); okC && (op == token.EQL || op == token.NEQ) && core.IsNilConst(y) {
						if _, okF := core.FieldOf(x, "Advert"); okF {
							tests = true
						}
					}
				}
			})
			if !tests {
				c.Ok("R18.18", "removed-neighbour-forgets-its-advertisement", p.Pos(del.Pos()), "ribUpdate does not recognise a removed neighbour by its nil advertisement (not applicable)")
			} else {
				isClear := func(in ssa.Instruction) bool {
					st, ok := in.(*ssa.Store)
					if !ok || !core.IsNilConst(core.Strip(st.Val)) {
						return false
					}
					fa, ok := st.Addr.(*ssa.FieldAddr)
					if !ok {
						return false
					}
					_, f := core.FieldAddrName(fa)
					return f == "Advert"
				}
				fr := core.MustFollowDeep(del, core.Point{Block: del.Blocks[0], Idx: 0}, isClear, nil)
				c.Decide(fr.OK, "R18.18", "removed-neighbour-forgets-its-advertisement", p.Pos(del.Pos()), "NeighborState.delete clears Advert on every path", "NeighborState.delete can return without clearing the neighbour's advertisement while ribUpdate recognises a removed neighbour by Advert == nil: an update that was started before the removal and runs after it re-installs every route through the removed neighbour, and nothing withdraws them")
			}
		}
	}
	// ---- R18.16 a Sync Interest that is ignored does not keep the neighbour alive for ever.
	// RecvPing ignores a passive ping from another face while the neighbour is marked active
	// on its current face. If every ping refreshes lastSeen first, a neighbour whose active
	// face is gone (the link was re-created from the other end) is never declared dead and
	// never re-homed: its routes stay on the destroyed face and no advertisement of it can be
	// fetched again — the tables freeze. Either the precedence expires (the ignoring branch
	// is also behind a comparison of times), or the ignored ping does not refresh lastSeen.
	if rp := c.Fn("R18.16", "dv/table", "NeighborState", "RecvPing"); rp != nil && len(rp.Params) >= 3 {
		active := ssa.Value(rp.Params[2])
		var seenStores []ssa.Instruction
		core.Instrs(rp, func(in ssa.Instruction) {
			if _, _, ok := storeToField(in, "NeighborState", "lastSeen"); ok {
				seenStores = append(seenStores, in)
			}
		})
		// the ignoring return: (nil, false) in a block that lies behind "active is false"
		var ignores []*ssa.Return
		core.Instrs(rp, func(in ssa.Instruction) {
			r, ok := in.(*ssa.Return)
			if !ok || len(r.Results) != 2 {
				return
			}
			if b, isC := core.ConstBool(r.Results[1]); !isC || b {
				return
			}
			for d := r.Block(); d != nil && d.Idom() != nil; d = d.Idom() {
				id := d.Idom()
				iff, isIf := id.Instrs[len(id.Instrs)-1].(*ssa.If)
				if !isIf || len(d.Preds) != 1 {
					continue
				}
				if core.Strip(iff.Cond) == core.Strip(active) && id.Succs[1] == d {
					ignores = append(ignores, r)
					return
				}
			}
		})
		if len(ignores) == 0 {
			c.Ok("R18.16", "ignored-ping-does-not-keep-alive", p.Pos(rp.Pos()), "RecvPing ignores no ping")
		}
		for i, r := range ignores {
			timed := false
			for d := r.Block(); d != nil && d.Idom() != nil; d = d.Idom() {
				id := d.Idom()
				iff, isIf := id.Instrs[len(id.Instrs)-1].(*ssa.If)
				if !isIf {
					continue
				}
				var walk func(v ssa.Value, n int)
				walk = func(v ssa.Value, n int) {
					if n > 5 || timed {
						return
					}
					switch y := core.Strip(v).(type) {
					case *ssa.Call:
						if id2, okID := core.Callee(&y.Call); okID && id2.Pkg == "time" {
							timed = true
						}
						for _, a := range y.Call.Args {
							walk(a, n+1)
						}
					case *ssa.BinOp:
						walk(y.X, n+1)
						walk(y.Y, n+1)
					case *ssa.UnOp:
						walk(y.X, n+1)
					case *ssa.Phi:
						for _, e := range y.Edges {
							walk(e, n+1)
						}
					}
				}
				walk(iff.Cond, 0)
			}
			refreshed := false
			for _, st := range seenStores {
				if core.ReachableFrom(core.After(st), r) {
					refreshed = true
				}
			}
			c.Decide(timed || !refreshed, "R18.16", fmt.Sprintf("ignored-ping-does-not-keep-alive#%d", i), c.Pos(r), "the precedence of the active face expires, or an ignored ping leaves lastSeen alone", "RecvPing refreshes lastSeen and then ignores a passive ping from another face for as long as the neighbour is marked active, with no expiry: after the link was re-created from the other end the neighbour is heard only passively on the new face, is never declared dead and never re-homed — its routes stay on the destroyed face, its advertisements can never be fetched again and the table freezes (destinations behind it are never learnt or never withdrawn)")
		}
	}

	// ---- R18.15 a next hop that enters an entry's cost column has its name on record. The RIB
	// stores next hops as hashes and turns them back into names through Rib.neighbors when it
	// builds the advertisement: Rib.Set reaches RibEntry.Set only after it has found the next
	// hop's name in that map or stored it there — also when the destination's entry exists
	// already. Otherwise the advertisement carries an empty next-hop name, the neighbours'
	// poison reverse no longer recognises themselves, and routes loop after a link flap.
	if set := c.Fn("R18.15", "dv/table", "Rib", "Set"); set != nil {
		var eff []ssa.Instruction
		for _, ci := range core.FindCallsDeep(set, core.CalleeID{Pkg: "dv/table", Recv: "RibEntry", Name: "Set"}) {
			eff = append(eff, ci)
		}
		isNb := func(m ssa.Value) bool {
			_, path := core.FieldPath(m)
			return len(path) > 0 && path[len(path)-1] == "neighbors"
		}
		known := &core.Atom{Name: "next hop's name is on record", Match: func(cond ssa.Value) (int, int) {
			ex, ok := core.Strip(cond).(*ssa.Extract)
			if !ok || ex.Index != 1 {
				return 0, 0
			}
			lk, ok := ex.Tuple.(*ssa.Lookup)
			if !ok || !lk.CommaOk || !isNb(lk.X) {
				return 0, 0
			}
			return 1, -1
		}}
		records := func(in ssa.Instruction) bool {
			mu, ok := in.(*ssa.MapUpdate)
			return ok && isNb(mu.Map)
		}
		if len(eff) == 0 {
			c.Und("R18.15", "next-hop-name-on-record", p.Pos(set.Pos()), "Rib.Set no longer calls RibEntry.Set")
		} else {
			cut, _ := core.CutEdges(set, pos(known))
			bad := ""
			for _, e := range eff {
				if path := core.ReachInstr(set, e, cut, records); path != nil {
					bad = p.PathString(path)
				}
			}
			c.Decide(bad == "", "R18.15", "next-hop-name-on-record", c.Pos(eff[0]), "every path to RibEntry.Set has found or stored the next hop's name in Rib.neighbors", "Rib.Set puts a next hop into an entry's cost column on a path that neither found nor stored the next hop's name in Rib.neighbors ("+bad+"): Advert() then emits an empty next-hop name for routes through it, the neighbours' poison reverse stops applying, and after a link flap the chosen next hop no longer lies on a shortest path")
		}
	}

	// ---- R18.14 the RIB and the neighbour table identify a router by its name, not by the
	// 64-bit hash of the name alone
	{
		n := hashKeyRule(c, "R18.14", []string{"dv/table"}, func(id string) bool {
			return strings.Contains(id, "dv/table.Rib") || strings.Contains(id, "NeighborTable")
		}, "a destination whose name has the hash of another one is merged into that one's RIB entry: it is never advertised and never gets a route, so the network does not converge to a shortest path for it")
		c.Floor("R18.14", "maps of the RIB and the neighbour table indexed by a name's hash", n, 1)
	}

}

// c18Selection (R18.4): RibEntry.refresh keeps, in loop-carried variables, the best and the
// second-best (cost, hop) of the cost map. A "slot" is a pair of loop variables that adopt
// the candidate cost and the candidate hop in the same block. For every slot the path
// condition of that block, in disjunctive normal form (through short-circuit operators and
// predicate helpers such as preferHop), must be the strict lexicographic order on
// (cost, hop) against THAT slot's own variables: every disjunct has cost < slotCost, or
// cost == slotCost and hop < slotHop. And when the best slot adopts a candidate, the
// second-best slot receives the previous best.
func c18Selection(c *core.Ctx, rf *ssa.Function) {
	p := c.P
	// candidate (hop, cost): key and value of the range over the cost map
	// the selection written as a sort of the candidates: the candidates are collected by
	// ranging over a map (random order), so the order function must be total over
	// (cost, next hop) — a comparison by cost alone, however stable the sort, leaves the
	// choice among equal-cost next hops to the map's iteration order
	{
		p := c.P
		sorted := false
		core.InstrsDeep(rf, func(in ssa.Instruction) {
			cl, ok := in.(*ssa.Call)
			if !ok {
				return
			}
			g := cl.Call.StaticCallee()
			if g != nil && g.Origin() != nil {
				g = g.Origin()
			}
			if g == nil || g.Pkg == nil {
				return
			}
			pk, nm := g.Pkg.Pkg.Path(), g.Name()
			if !((pk == "sort" && (nm == "Slice" || nm == "SliceStable")) || (pk == "slices" && (nm == "SortFunc" || nm == "SortStableFunc"))) || len(cl.Call.Args) != 2 {
				return
			}
			mc, isMC := core.Strip(cl.Call.Args[1]).(*ssa.MakeClosure)
			var less *ssa.Function
			if isMC {
				less, _ = mc.Fn.(*ssa.Function)
			} else if f, isF := core.Strip(cl.Call.Args[1]).(*ssa.Function); isF {
				less = f
			}
			if less == nil {
				return
			}
			sorted = true
			nOrd := 0
			core.Instrs(less, func(x ssa.Instruction) {
				if b, isB := x.(*ssa.BinOp); isB {
					switch b.Op {
					case token.LSS, token.GTR, token.LEQ, token.GEQ, token.EQL, token.NEQ:
						nOrd++
					}
				}
				if c2, isC := x.(*ssa.Call); isC {
					if h := c2.Call.StaticCallee(); h != nil && h.Pkg != nil && h.Pkg.Pkg.Path() == "cmp" {
						nOrd++
					}
				}
			})
			c.Decide(nOrd >= 2, "R18.4", "deterministic-tie-break:sorted", p.Pos(cl.Pos()), "the order function of the candidate sort compares more than the cost", "RibEntry.refresh sorts its candidates, collected in map iteration order, by one comparison only (the cost): among next hops of equal cost the winner is whichever the map yielded first — the next hop of a destination changes from one refresh to the next, an unchanged advertisement reports a change, and equal-cost neighbours keep re-advertising (ties are not broken the same way every time)")
		})
		if sorted {
			return
		}
	}
	var candHop, candCost ssa.Value
	core.Instrs(rf, func(in ssa.Instruction) {
		if e, ok := in.(*ssa.Extract); ok {
			if nx, isN := e.Tuple.(*ssa.Next); isN && !nx.IsString {
				switch e.Index {
				case 1:
					candHop = e
				case 2:
					candCost = e
				}
			}
		}
	})
	if candHop == nil || candCost == nil {
		c.Und("R18.4", "selection-loop", p.Pos(rf.Pos()), "no range over a map with key and value found in RibEntry.refresh")
		return
	}
	var hdr []*ssa.Phi
	core.Instrs(rf, func(in ssa.Instruction) {
		if ph, ok := in.(*ssa.Phi); ok && loopHeader(ph.Block()) == ph.Block() && len(*ph.Referrers()) > 0 {
			hdr = append(hdr, ph)
		}
	})
	// the header variable a merged value belongs to
	owner := map[ssa.Value]*ssa.Phi{}
	for _, h := range hdr {
		seen := map[ssa.Value]bool{}
		var mark func(v ssa.Value)
		mark = func(v ssa.Value) {
			v = core.Strip(v)
			ph, ok := v.(*ssa.Phi)
			if !ok || seen[v] || ph == h {
				return
			}
			if loopHeader(ph.Block()) == ph.Block() {
				return // another loop variable
			}
			seen[v] = true
			owner[ph] = h
			for _, e := range ph.Edges {
				mark(e)
			}
		}
		for i, e := range h.Edges {
			if h.Block().Dominates(h.Block().Preds[i]) {
				mark(e)
			}
		}
	}
	// adoption edges: block B hands candidate / another loop variable to variable H
	type adopt struct {
		h   *ssa.Phi
		val ssa.Value
	}
	byBlock := map[*ssa.BasicBlock][]adopt{}
	note := func(h *ssa.Phi, ph *ssa.Phi) {
		for i, e := range ph.Edges {
			e = core.Strip(e)
			pred := ph.Block().Preds[i]
			if ph == h && !h.Block().Dominates(pred) {
				continue // the initial value
			}
			if e == ssa.Value(h) || owner[e] == h {
				continue // unchanged / merged further up
			}
			byBlock[pred] = append(byBlock[pred], adopt{h, e})
		}
	}
	for _, h := range hdr {
		note(h, h)
	}
	for m, h := range owner {
		note(h, m.(*ssa.Phi))
	}
	type slot struct {
		cost, hop *ssa.Phi
		at        *ssa.BasicBlock
	}
	var slots []slot
	for b, as := range byBlock {
		var sc, sh *ssa.Phi
		for _, a := range as {
			if a.val == candCost {
				sc = a.h
			}
			if a.val == candHop {
				sh = a.h
			}
		}
		if sc != nil && sh != nil {
			slots = append(slots, slot{sc, sh, b})
		}
	}
	sort.Slice(slots, func(i, j int) bool { return slots[i].at.Index < slots[j].at.Index })
	c.Floor("R18.4", "selection slots (best, second best) in RibEntry.refresh", len(slots), 2)
	if len(slots) == 0 {
		return
	}
	body := slots[0].cost.Block() // loop header
	inLoop := func(b *ssa.BasicBlock) bool { return b == body || loopHeader(b) == body || body.Dominates(b) }
	isV := func(v ssa.Value, want ssa.Value) bool {
		v = core.StripConv(v)
		return v == want || core.Same(v, want)
	}
	for i, sl := range slots {
		dnf, restore, ok := core.ReachDNF(body, sl.at, inLoop)
		bad := ""
		if !ok || len(dnf) == 0 {
			bad = fmt.Sprintf("cannot enumerate the path conditions of the adoption (from block %d to block %d: %d conjunctions, ok=%v)", body.Index, sl.at.Index, len(dnf), ok)
		}
		kinds := map[string]bool{}
		for _, conj := range dnf {
			relC, relH := core.RelAll, core.RelAll
			for _, l := range conj {
				if !l.IsCmp {
					continue
				}
				switch {
				case isV(l.X, candCost) && isV(l.Y, sl.cost):
					relC &= l.Rel()
				case isV(l.Y, candCost) && isV(l.X, sl.cost):
					relC &= core.SwapRel(l.Rel())
				case isV(l.X, candHop) && isV(l.Y, sl.hop):
					relH &= l.Rel()
				case isV(l.Y, candHop) && isV(l.X, sl.hop):
					relH &= core.SwapRel(l.Rel())
				}
			}
			if relC == 0 || relH == 0 {
				continue // contradictory path condition: no execution takes this path
			}
			switch {
			case relC == core.RelLT:
				kinds["cost<"] = true
			case relC == core.RelEQ && relH == core.RelLT:
				kinds["cost==,hop<"] = true
			default:
				bad = fmt.Sprintf("a path adopts the candidate under cost %s slot cost and hop %s slot hop", relC, relH)
			}
		}
		restore()
		if bad == "" && !(kinds["cost<"] && kinds["cost==,hop<"]) {
			bad = "the adoption lacks the lower-cost case or the tie-break case"
		}
		c.Decide(bad == "", "R18.4", fmt.Sprintf("deterministic-tie-break:slot%d", i+1), p.Pos(rf.Pos()),
			"the candidate replaces this slot exactly when cost < slot cost, or cost == slot cost and hop < slot hop (compared with the slot's own variables)",
			"RibEntry.refresh does not select by the strict order (cost, hop) against the slot's own best ("+bad+"): with equal costs the chosen next hop depends on map iteration order, and refresh reports changes forever")
	}
	// demotion: a slot whose adoption block also hands its previous (cost, hop) to another slot
	demote := false
	for _, s1 := range slots {
		for _, s2 := range slots {
			if s1.cost == s2.cost {
				continue
			}
			okC, okH := false, false
			for _, a := range byBlock[s1.at] {
				if a.h == s2.cost && a.val == ssa.Value(s1.cost) {
					okC = true
				}
				if a.h == s2.hop && a.val == ssa.Value(s1.hop) {
					okH = true
				}
			}
			if okC && okH {
				demote = true
			}
		}
	}
	c.Decide(demote, "R18.4", "previous-best-becomes-second", p.Pos(rf.Pos()), "when a new best is found the previous best (cost and hop) becomes second best", "RibEntry.refresh loses the previous best when a better next hop is found (second-best cost/poison-reverse information is wrong)")
}
