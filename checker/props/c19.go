package props

import (
	"fmt"
	"go/token"
	"go/types"
	"strings"

	"ndndcheck/core"

	"golang.org/x/tools/go/ssa"
)

// reachesFibUpdate: the instruction is a call/go of Router.fibUpdate, or a go/call of a
// closure whose every path calls Router.fibUpdate.
func reachesFibUpdate(in ssa.Instruction) bool {
	ci, ok := in.(ssa.CallInstruction)
	if !ok {
		return false
	}
	if _, ok := core.IsCall(in, core.CalleeID{Pkg: "dv/dv", Recv: "Router", Name: "fibUpdate"}); ok {
		return true
	}
	var fn *ssa.Function
	switch v := ci.Common().Value.(type) {
	case *ssa.MakeClosure:
		fn, _ = v.Fn.(*ssa.Function)
	case *ssa.Function:
		fn = v
	}
	if fn == nil || fn.Blocks == nil || fn.Parent() == nil {
		return false
	}
	return core.MustFollowDeep(fn, core.Point{Block: fn.Blocks[0], Idx: 0}, func(x ssa.Instruction) bool {
		_, ok := core.IsCall(x, core.CalleeID{Pkg: "dv/dv", Recv: "Router", Name: "fibUpdate"})
		return ok
	}, nil).OK
}

// C19 — Routes installed by the routing daemon mirror its tables (narrow claim).
func C19(c *core.Ctx) {
	c.Explain = "Narrow claim. The correctness of the incremental differ over all histories, and the equality of the replayed prefix log with the announced set, are behavioural and NOT decided. Decided structural necessary conditions: (R19.1) every site that changes an input of the installer triggers it: on the edge asserting that the RIB changed (ribUpdate, checkDeadNeighbors), that the prefix table changed (processPrefixData, Apply == true) or that a neighbour's face changed (advertSyncOnInterest) a call or goroutine of Router.fibUpdate follows on every path; (R19.2) fibUpdate brackets the rebuild: UnmarkAll precedes every UpdateH/MarkH and RemoveUnmarked follows them on all exits; it skips this router's own entry and takes next hops from the RIB for each router and for each prefix that router announces; UpdateH issues 'unregister' only for entries whose cost is ≥ infinity and 'register' only when the cost differs from the previously installed one; (R19.3) PrefixTable.Apply processes reset, then adds, then removes (SPEC: 'processed strictly in order'), and publishOp increments the sequence number before naming the Data it publishes; (R19.15) the same-face search of UpdateH's merge runs over the list the round appends to, not over a slice header fixed before the loop."
	c.RuleText = "instances: dirty-flag edges of the four trigger sites, the mark/sweep bracket of fibUpdate, the two command sites of UpdateH, the three loops of Apply. Non-trivial = has a branch edge or path to decide."
	p := c.P
	defer c19FaceChangeIsDirty(c)

	// ---- R19.1 triggers
	type trig struct {
		recv, fn string
		atom     *core.Atom
	}
	// a boolean accumulator ("dirty") tested by an If: a phi (from || chains and loops) or a
	// captured variable whose possible values include the result of one of the given calls
	accumulates := func(name string, ids ...core.CalleeID) *core.Atom {
		var has func(v ssa.Value, seen map[ssa.Value]bool) bool
		has = func(v ssa.Value, seen map[ssa.Value]bool) bool {
			v = core.Strip(v)
			if v == nil || seen[v] {
				return false
			}
			seen[v] = true
			switch x := v.(type) {
			case *ssa.Phi:
				for i, e := range x.Edges {
					if has(e, seen) {
						return true
					}
					// "flag = call() || flag" compiles to a phi whose constant-true edge comes
					// from the block that branches on the call's result
					if b, isC := core.ConstBool(e); isC && b {
						pred := x.Block().Preds[i]
						if iff, ok := pred.Instrs[len(pred.Instrs)-1].(*ssa.If); ok {
							cnd, _ := core.StripNot(iff.Cond)
							if has(cnd, seen) {
								return true
							}
						}
					}
				}
			case *ssa.Call:
				if _, ok := core.IsCall(x, ids...); ok {
					return true
				}
				// the flag is the result of a private helper (wrapper/worker split)
				if r := core.Resolve(x); r != ssa.Value(x) {
					return has(r, seen)
				}
				return false
			case *ssa.Extract:
				if cl, ok := x.Tuple.(*ssa.Call); ok {
					_, ok := core.IsCall(cl, ids...)
					return ok
				}
			case *ssa.BinOp:
				return has(x.X, seen) || has(x.Y, seen)
			case *ssa.UnOp:
				if x.Op == token.MUL {
					// captured / address-taken flag: any store of an accumulating value
					var cell ssa.Value = x.X
					if fv, ok := cell.(*ssa.FreeVar); ok {
						_ = fv
					}
					if al, ok := cell.(*ssa.Alloc); ok {
						for _, r := range core.Refs(al) {
							if st, ok := r.(*ssa.Store); ok && has(st.Val, seen) {
								return true
							}
							// the cell is captured by a closure that stores into it
							if mc, ok := r.(*ssa.MakeClosure); ok {
								cf := mc.Fn.(*ssa.Function)
								for i, b := range mc.Bindings {
									if b != ssa.Value(al) || i >= len(cf.FreeVars) {
										continue
									}
									fv := cf.FreeVars[i]
									for _, r2 := range core.Refs(fv) {
										if st, ok := r2.(*ssa.Store); ok && has(st.Val, seen) {
											return true
										}
									}
								}
							}
						}
					}
				}
			}
			return false
		}
		return &core.Atom{Name: name, Match: func(cond ssa.Value) (int, int) {
			switch core.Strip(cond).(type) {
			case *ssa.Phi, *ssa.UnOp, *ssa.BinOp, *ssa.Call:
				if cl, isCall := core.Strip(cond).(*ssa.Call); isCall && core.Resolve(cl) == ssa.Value(cl) {
					return 0, 0 // a direct call is matched by the call atoms, not as an accumulator
				}
				if has(cond, map[ssa.Value]bool{}) {
					return 1, -1
				}
			}
			return 0, 0
		}}
	}
	ribMut := []core.CalleeID{{Pkg: "dv/table", Recv: "Rib", Name: "Set"}, {Pkg: "dv/table", Recv: "Rib", Name: "Prune"}, {Pkg: "dv/table", Recv: "Rib", Name: "RemoveNextHop"}}
	trigs := []trig{
		{"Router", "ribUpdate", accumulates("rib-changed", ribMut...)},
		{"Router", "checkDeadNeighbors", accumulates("rib-changed", ribMut...)},
		{"Router", "processPrefixData", atomCallTrue("prefix-table-changed", callIs(core.CalleeID{Pkg: "dv/table", Recv: "PrefixTable", Name: "Apply"}))},
		{"Router", "advertSyncOnInterest", accumulates("neighbour-face-changed", core.CalleeID{Pkg: "dv/table", Recv: "NeighborState", Name: "RecvPing"})},
	}
	for _, t := range trigs {
		fn := c.Fn("R19.1", "dv/dv", t.recv, t.fn)
		if fn == nil {
			continue
		}
		n, ok := 0, true
		for _, f := range core.EdgeFacts(fn, t.atom) {
			if !f.Holds {
				continue
			}
			n++
			if !core.MustFollowDeep(fn, core.Point{Block: f.E.To, Idx: 0}, reachesFibUpdate, nil).OK {
				ok = false
			}
		}
		c.Decide(ok && n > 0, "R19.1", "change-triggers-installer:"+t.fn, p.Pos(fn.Pos()), "on the '"+t.atom.Name+"' edge fibUpdate is called (or started) on every path", t.fn+": a change of the installer's input ("+t.atom.Name+") does not always trigger fibUpdate: the routes registered in the forwarder go stale until something else triggers a rebuild")
	}
	// the RIB-changed flags really accumulate the mutators' results
	for _, fnm := range []string{"ribUpdate", "checkDeadNeighbors"} {
		fn := p.Func("dv/dv", "Router", fnm)
		if fn == nil {
			continue
		}
		okAcc := true
		for _, ci := range core.FindCallsDeep(fn, core.CalleeID{Pkg: "dv/table", Recv: "Rib", Name: "Set"}, core.CalleeID{Pkg: "dv/table", Recv: "Rib", Name: "Prune"}, core.CalleeID{Pkg: "dv/table", Recv: "Rib", Name: "RemoveNextHop"}) {
			if v := ci.Value(); v == nil || len(core.Refs(v)) == 0 {
				okAcc = false
			}
		}
		c.Decide(okAcc, "R19.1", "mutator-results-accumulated:"+fnm, p.Pos(fn.Pos()), "the 'changed' result of every RIB mutator is used", fnm+" discards the 'changed' result of a RIB mutator: some table changes never set the dirty flag")
	}

	// ---- R19.2 fibUpdate bracket
	if fu := c.Fn("R19.2", "dv/dv", "Router", "fibUpdate"); fu != nil {
		call := func(name string) []ssa.CallInstruction {
			return core.FindCallsDeep(fu, core.CalleeID{Pkg: "dv/table", Recv: "Fib", Name: name})
		}
		unmark, upd, mark, sweep := call("UnmarkAll"), call("UpdateH"), call("MarkH"), call("RemoveUnmarked")
		ok := len(unmark) >= 1 && len(upd) >= 1 && len(mark) >= 1 && len(sweep) >= 1
		if ok {
			// (a branch of its own for "nothing to install" may hold a second bracket)
			isUnmark := func(in ssa.Instruction) bool {
				for _, x := range unmark {
					if in == ssa.Instruction(x) {
						return true
					}
				}
				return false
			}
			isSweep := func(in ssa.Instruction) bool {
				for _, x := range sweep {
					if in == ssa.Instruction(x) {
						return true
					}
				}
				return false
			}
			for _, u := range append(append([]ssa.CallInstruction{}, upd...), mark...) {
				if !core.PrecedesDeep(fu, u, isUnmark) || !core.MustFollowDeep(fu, core.After(u), isSweep, nil).OK {
					ok = false
				}
				// nothing is unmarked again between a mark and the sweep
				for _, x := range unmark {
					if core.ReachableAfterDeep(fu, u, x) {
						ok = false
					}
				}
			}
			for _, x := range unmark {
				if core.InLoop(x.Block()) {
					ok = false
				}
				// the sweep runs on every path of the function (also when nothing is desired)
				if !core.MustFollowDeep(fu, core.After(x), isSweep, nil).OK {
					ok = false
				}
			}
			for _, x := range sweep {
				if core.InLoop(x.Block()) {
					ok = false
				}
			}
			// ... and on every path from the function entry: an early return before the
			// bracket ("nothing to install") would leave the previous routes registered
			if !core.MustFollowDeep(fu, core.Point{Block: fu.Blocks[0], Idx: 0}, isSweep, nil).OK {
				ok = false
			}
		}
		c.Decide(ok, "R19.2", "mark-sweep-bracket", p.Pos(fu.Pos()), "UnmarkAll → (UpdateH, MarkH)* → RemoveUnmarked on every path", "fibUpdate does not bracket the rebuild with UnmarkAll before and RemoveUnmarked after every update: prefixes that are no longer prescribed stay registered (or freshly updated ones are swept)")
		// MarkH only for entries UpdateH kept
		for _, m := range mark {
			keep := &core.Atom{Name: "UpdateH()==true", Match: func(cond ssa.Value) (int, int) {
				if isCallTo(cond, core.CalleeID{Pkg: "dv/table", Recv: "Fib", Name: "UpdateH"}) {
					return 1, -1
				}
				return 0, 0
			}}
			g := core.GateDeep(fu, []ssa.Instruction{m}, pos(keep))
			c.Decide(g.OK && g.PassEdges > 0, "R19.2", "mark-only-kept-entries", c.Pos(m), "MarkH only on the UpdateH()==true edge", "fibUpdate marks a prefix although UpdateH reported that nothing is installed for it")
		}
		// own entry skipped
		self := atomCallTrue("router-is-self", func(cl *ssa.Call) bool {
			cc, ok := core.IsCall(cl, core.CalleeID{Pkg: "std/encoding", Recv: "Name", Name: "Equal"})
			if !ok {
				return false
			}
			_, a := core.CallArgs(cc)
			return isCallTo(a[0], core.CalleeID{Pkg: "dv/config", Recv: "Config", Name: "RouterName"})
		})
		var gets []ssa.Instruction
		for _, ci := range core.FindCallsDeep(fu, core.CalleeID{Pkg: "dv/table", Recv: "Rib", Name: "GetFibEntries"}) {
			gets = append(gets, ci)
		}
		g := core.GateDeep(fu, gets, neg(self))
		c.Decide(len(gets) > 0 && g.OK && g.PassEdges > 0, "R19.2", "own-router-skipped", p.Pos(fu.Pos()), "no routes are computed for this router's own entry", "fibUpdate installs routes towards this router itself")
		// prefixes of each router are registered with that router's next hops
		okPfx := len(core.FindCallsDeep(fu, core.CalleeID{Pkg: "dv/table", Recv: "PrefixTable", Name: "GetRouter"})) > 0
		c.Decide(okPfx, "R19.2", "prefixes-from-prefix-table", p.Pos(fu.Pos()), "the prefixes announced by each reachable router are taken from the prefix table", "fibUpdate no longer installs the prefixes announced by remote routers")
	}
	if uh := c.Fn("R19.2", "dv/table", "Fib", "UpdateH"); uh != nil {
		inf, _ := lookupConst(p, "dv/config", "CostInfinity")
		var unreg, reg []ssa.Instruction
		core.InstrsDeep(uh, func(in ssa.Instruction) {
			if _, ok := core.IsCall(in, core.CalleeID{Pkg: "dv/nfdc", Recv: "NfdMgmtThread", Name: "Exec"}); !ok {
				return
			}
			// which command: the Cmd field stored into the argument literal
			ci := in.(ssa.CallInstruction)
			_, a := core.CallArgs(ci.Common())
			cmd := ""
			if u, ok := core.Strip(a[0]).(*ssa.UnOp); ok {
				if al, ok := u.X.(*ssa.Alloc); ok {
					for _, r := range core.Refs(al) {
						if fa, ok := r.(*ssa.FieldAddr); ok {
							if _, f := core.FieldAddrName(fa); f == "Cmd" {
								for _, r2 := range core.Refs(fa) {
									if st, ok := r2.(*ssa.Store); ok {
										if cst, ok := st.Val.(*ssa.Const); ok {
											cmd = strings.Trim(cst.Value.ExactString(), "\"")
										}
									}
								}
							}
						}
					}
				}
			}
			switch cmd {
			case "unregister":
				unreg = append(unreg, in)
			case "register":
				reg = append(reg, in)
			}
		})
		gone := &core.Atom{Name: "entry.Cost>=infinity", Match: func(cond ssa.Value) (int, int) {
			op, x, y, ok := core.Cmp(cond)
			if !ok {
				return 0, 0
			}
			if k, isC := core.ConstInt(y); !isC || k != inf {
				return 0, 0
			}
			if _, okF := core.FieldOf(x, "Cost"); !okF {
				if f, okFi := core.Strip(x).(*ssa.Field); !okFi || f.Field != 1 {
					return 0, 0
				}
			}
			switch op {
			case token.GEQ:
				return 1, -1
			case token.LSS:
				return -1, 1
			}
			return 0, 0
		}}
		same := &core.Atom{Name: "entry.Cost==entry.prevCost", Match: func(cond ssa.Value) (int, int) {
			op, x, y, ok := core.Cmp(cond)
			if !ok || (op != token.EQL && op != token.NEQ) {
				return 0, 0
			}
			isF := func(v ssa.Value, idx int, name string) bool {
				if _, okF := core.FieldOf(v, name); okF {
					return true
				}
				f, okFi := core.Strip(v).(*ssa.Field)
				return okFi && f.Field == idx
			}
			if (isF(x, 1, "Cost") && isF(y, 2, "prevCost")) || (isF(x, 2, "prevCost") && isF(y, 1, "Cost")) {
				return core.Iff(op == token.EQL)
			}
			return 0, 0
		}}
		// the merge takes EVERY finite desired entry: an unreachable (infinite-cost) desired
		// entry is passed over, the scan goes on — it does not end there (the desired list of
		// a multi-homed prefix is the concatenation of several routers' next hops, each best
		// first: a router without a finite second-best is followed by other routers' hops)
		{
			uhRoot := uh
			nSkip, ended := 0, ""
			// (the merge may sit in a helper that is given the installed and the desired list)
			type gf struct {
				g *ssa.Function
				f core.EdgeFact
			}
			var facts []gf
			restoreRoot := core.WithRoot(uh)
			for _, g := range core.Reach(uh) {
				if g.Blocks == nil {
					continue
				}
				for _, f := range core.EdgeFacts(g, gone) {
					facts = append(facts, gf{g, f})
				}
			}
			for _, x := range facts {
				f, uh := x.f, x.g
				if !f.Holds {
					continue
				}
				h := loopHeader(f.E.From)
				if h == nil {
					continue
				}
				// only the scan of the desired entries (the parameter), not the sweep of the
				// stored ones that issues the commands
				isParamScan := false
				core.Instrs(uh, func(in ssa.Instruction) {
					if rg, ok := in.(*ssa.Range); ok && in.Block() != nil {
						_ = rg
					}
				})
				for _, in := range h.Instrs {
					if ph, ok := in.(*ssa.Phi); ok {
						_ = ph
					}
				}
				// the loop's collection: length compared in the header comes from the parameter
				for _, in := range h.Instrs {
					if b, ok := in.(*ssa.BinOp); ok && b.Op == token.LSS {
						if l, isLen := core.LenOf(core.StripConv(b.Y)); isLen {
							if prm, isP := core.Strip(l).(*ssa.Parameter); isP && len(uhRoot.Params) >= 4 && (prm == uhRoot.Params[3] || core.Strip(core.Resolve(prm)) == ssa.Value(uhRoot.Params[3])) {
								isParamScan = true
							}
						}
					}
				}
				if !isParamScan {
					continue
				}
				nSkip++
				if core.ReachAvoiding(uh, f.E.To, map[*ssa.BasicBlock]bool{h: true}, nil) == nil && f.E.To != h {
					ended = c.Pos(f.E.From.Instrs[len(f.E.From.Instrs)-1])
				}
			}
			restoreRoot()
			c.Decide(nSkip > 0 && ended == "", "R19.2", "merge-scans-all-desired-entries", p.Pos(uh.Pos()), "an infinite-cost desired entry is passed over and the scan continues", "UpdateH stops merging the desired next hops at the first infinite-cost entry ("+ended+"): for a prefix announced by several routers, the faces of every router listed after one that has no finite second-best next hop are never installed")
		}
		g1 := core.GateDeep(uh, unreg, pos(gone))
		g2 := core.GateDeep(uh, reg, neg(same))
		c.Decide(len(unreg) == 1 && g1.OK && g1.PassEdges > 0, "R19.2", "unregister-only-unreachable", p.Pos(uh.Pos()), "'unregister' is issued only on the edge asserting cost ≥ infinity", "UpdateH can unregister a face that is still a finite-cost next hop (or never unregisters)")
		c.Decide(len(reg) == 1 && g2.OK && g2.PassEdges > 0, "R19.2", "register-only-on-cost-change", p.Pos(uh.Pos()), "'register' is issued only when the cost differs from the installed one", "UpdateH re-registers unchanged routes or skips changed ones (the register command is not gated by Cost != prevCost)")
		// a face listed more than once for a prefix keeps its lowest cost: the store into
		// an existing entry's Cost (other than the reset to infinity) is min(new, current)
		nStore, okMin := 0, true
		core.InstrsDeep(uh, func(in ssa.Instruction) {
			fa, v, ok := storeToField(in, "FibEntry", "Cost")
			if !ok {
				return
			}
			if _, isElem := core.Strip(fa.X).(*ssa.IndexAddr); !isElem {
				return
			}
			if k, isC := core.ConstInt(v); isC && k == inf {
				return
			}
			nStore++
			cl, isCall := core.Strip(v).(*ssa.Call)
			good := false
			if isCall {
				if b, ok := cl.Call.Value.(*ssa.Builtin); ok && b.Name() == "min" {
					for _, a := range cl.Call.Args {
						if u, ok := core.Strip(a).(*ssa.UnOp); ok {
							if fa2, ok := u.X.(*ssa.FieldAddr); ok && fa2.Field == fa.Field && core.Same(fa2.X, fa.X) {
								good = true
							}
						}
					}
				}
			}
			if !good {
				// or: the store is reachable only on the edge asserting new < current
				lower := &core.Atom{Name: "new.Cost<current.Cost", Match: func(cond ssa.Value) (int, int) {
					op, x, y, ok := core.Cmp(cond)
					if !ok {
						return 0, 0
					}
					isCur := func(w ssa.Value) bool {
						u, ok := core.Strip(w).(*ssa.UnOp)
						if !ok {
							return false
						}
						fa2, ok := u.X.(*ssa.FieldAddr)
						return ok && fa2.Field == fa.Field && core.Same(fa2.X, fa.X)
					}
					if isCur(x) && core.Same(y, v) {
						op = core.Swap(op)
					} else if !(isCur(y) && core.Same(x, v)) {
						return 0, 0
					}
					switch op {
					case token.LSS:
						return 1, -1
					case token.GEQ:
						return -1, 1
					}
					return 0, 0
				}}
				g := core.GateDeep(uh, []ssa.Instruction{in}, pos(lower))
				good = g.OK && g.PassEdges > 0
			}
			if !good {
				okMin = false
			}
		})
		c.Decide(nStore > 0 && okMin, "R19.2", "duplicate-face-keeps-lowest-cost", p.Pos(uh.Pos()), "an existing entry's cost is only lowered (min of the desired costs for that face)", "UpdateH overwrites the cost of a face that is listed more than once for a prefix with the last one seen instead of the lowest: multi-homed prefixes and shared faces are installed at a non-minimal cost")
		// all kept entries are stored back
		stored := false
		core.InstrsDeep(uh, func(in ssa.Instruction) {
			if mu, ok := in.(*ssa.MapUpdate); ok {
				if _, okF := core.FieldOf(mu.Map, "prefixes"); okF {
					stored = true
				}
			}
		})
		c.Decide(stored, "R19.2", "installed-state-recorded", p.Pos(uh.Pos()), "the resulting entries are stored back into fib.prefixes", "UpdateH does not record what it installed: the next diff starts from stale state")
	}
	if ru := c.Fn("R19.2", "dv/table", "Fib", "RemoveUnmarked"); ru != nil {
		unmarked := &core.Atom{Name: "prefix-marked", Match: func(cond ssa.Value) (int, int) {
			v := core.Strip(cond)
			if lk, ok := v.(*ssa.Lookup); ok {
				if _, okF := core.FieldOf(lk.X, "mark"); okF {
					return 1, -1
				}
			}
			if e, ok := v.(*ssa.Extract); ok {
				if lk, ok := e.Tuple.(*ssa.Lookup); ok {
					if _, okF := core.FieldOf(lk.X, "mark"); okF {
						return 1, -1
					}
				}
			}
			return 0, 0
		}}
		var eff []ssa.Instruction
		core.InstrsDeep(ru, func(in ssa.Instruction) {
			if _, ok := core.IsCall(in, core.CalleeID{Pkg: "dv/table", Recv: "Fib", Name: "UpdateH"}, core.CalleeID{Pkg: "dv/table", Recv: "Fib", Name: "Update"}); ok {
				eff = append(eff, in)
			}
			if isMapDelete(in, "prefixes") || isMapDelete(in, "names") {
				eff = append(eff, in)
			}
		})
		g := core.GateDeep(ru, eff, neg(unmarked))
		c.Decide(len(eff) > 0 && g.OK && g.PassEdges > 0, "R19.2", "sweep-removes-only-unmarked", p.Pos(ru.Pos()), "only unmarked prefixes are withdrawn", "RemoveUnmarked can withdraw a prefix that was marked in this rebuild")
	}

	c19FaceSearchCoversAdditions(c)
	// ---- R19.14 the faces of the desired entries are looked up when they are asked for:
	// every return of Rib.GetFibEntries lies behind the lookups of the next hops in the
	// neighbour table made in this call. A neighbour can move to another face without any
	// change of the RIB (same advertisement heard on a new face), so face ids remembered
	// from an earlier call are stale although no routing-table entry changed.
	if gf := c.Fn("R19.14", "dv/table", "Rib", "GetFibEntries"); gf != nil {
		var looks []ssa.Instruction
		core.InstrsDeep(gf, func(in ssa.Instruction) { // (the look-ups may sit in a helper)
			if _, ok := core.IsCall(in, core.CalleeID{Pkg: "dv/table", Recv: "NeighborTable", Name: "GetH"}, core.CalleeID{Pkg: "dv/table", Recv: "NeighborTable", Name: "Get"}); ok {
				looks = append(looks, in)
			}
		})
		stale := ""
		nRet := 0
		core.Instrs(gf, func(in ssa.Instruction) {
			r, isR := in.(*ssa.Return)
			if !isR || in.Block() == gf.Recover || len(r.Results) == 0 || core.IsNilConst(core.Strip(r.Results[0])) {
				return
			}
			nRet++
			// a list built in this call (make / literal / append onto those) is not a
			// remembered one, wherever the look-ups sit (inside a loop over the two next
			// hops, the return is not "preceded" path-insensitively)
			fresh := func(v ssa.Value) bool {
				seen := map[ssa.Value]bool{}
				var w func(v ssa.Value) bool
				w = func(v ssa.Value) bool {
					v = core.Strip(v)
					if seen[v] {
						return true
					}
					seen[v] = true
					switch x := v.(type) {
					case *ssa.MakeSlice:
						return true
					case *ssa.Slice:
						_, isAl := core.Strip(x.X).(*ssa.Alloc)
						return isAl || w(x.X)
					case *ssa.Phi:
						for _, e := range x.Edges {
							if !w(e) {
								return false
							}
						}
						return true
					case *ssa.Call:
						if b, isB := x.Call.Value.(*ssa.Builtin); isB && b.Name() == "append" {
							return w(x.Call.Args[0])
						}
					}
					return false
				}
				return w(v)
			}
			if fresh(r.Results[0]) && len(looks) > 0 {
				return
			}
			if !core.PrecedesDeep(gf, r, func(x ssa.Instruction) bool {
				for _, l := range looks {
					if x == l {
						return true
					}
				}
				return false
			}) {
				stale = c.Pos(r)
			}
		})
		c.Decide(stale == "" && len(looks) > 0, "R19.14", "next-hop-faces-looked-up-per-call", p.Pos(gf.Pos()), fmt.Sprintf("%d return(s), each behind a lookup in the neighbour table", nRet), "Rib.GetFibEntries can return entries without looking the next hops up in the neighbour table (return at "+stale+"): the face ids are those of an earlier call — when a neighbour moves to another face with an unchanged advertisement its routes stay on the old face and none is registered on the new one")
		c.Floor("R19.14", "lookups of a next hop's face in GetFibEntries", len(looks), 1)
	}
	// ---- R19.12 the sweep forgets what it withdraws: when RemoveUnmarked itself drops the
	// name of an unmarked prefix (instead of leaving that to UpdateH, which stores the
	// resulting entries back or deletes them), it also drops the recorded entries of that
	// prefix. Entries left behind make a later UpdateH believe the routes are still
	// installed (cost == prevCost): a prefix that comes back on the same face at the same
	// cost is never registered again.
	if ru := c.Fn("R19.12", "dv/table", "Fib", "RemoveUnmarked"); ru != nil {
		var drops, clears []ssa.Instruction
		core.Instrs(ru, func(in ssa.Instruction) {
			if isMapDelete(in, "names") {
				drops = append(drops, in)
			}
			if isMapDelete(in, "prefixes") {
				clears = append(clears, in)
			}
			if mu, ok := in.(*ssa.MapUpdate); ok {
				if _, okF := core.FieldOf(mu.Map, "prefixes"); okF {
					clears = append(clears, in)
				}
			}
			if _, ok := core.IsCall(in, core.CalleeID{Pkg: "dv/table", Recv: "Fib", Name: "UpdateH"}, core.CalleeID{Pkg: "dv/table", Recv: "Fib", Name: "Update"}); ok {
				clears = append(clears, in)
			}
		})
		bad := ""
		for _, d := range drops {
			ok := false
			for _, x := range clears {
				if x.Block() == d.Block() || x.Block().Dominates(d.Block()) || d.Block().Dominates(x.Block()) {
					ok = true
				}
			}
			if !ok {
				bad = c.Pos(d)
			}
		}
		c.Decide(bad == "", "R19.12", "sweep-forgets-what-it-withdraws", p.Pos(ru.Pos()), fmt.Sprintf("%d direct removals of a prefix name in the sweep, each with the recorded entries removed alongside", len(drops)), "RemoveUnmarked drops the name of a swept prefix at "+bad+" but keeps its recorded entries in fib.prefixes: when the prefix returns on the same face at the same cost UpdateH finds cost == prevCost and registers nothing — the route stays missing")
	}
	// ---- R19.13 an index of the installed entries follows the list: when UpdateH finds
	// the entry of a face through a map built in the call (instead of scanning the list),
	// and the list grows inside the loop that consults the map, the map is extended in
	// that loop too. Otherwise a face that occurs twice among the NEW entries (a prefix
	// announced by two routers reached over one face) is appended twice.
	if uh := c.Fn("R19.13", "dv/table", "Fib", "UpdateH"); uh != nil {
		bad := ""
		nIdx := 0
		core.Instrs(uh, func(in ssa.Instruction) {
			lk, ok := in.(*ssa.Lookup)
			if !ok {
				return
			}
			mk, isMk := core.Strip(lk.X).(*ssa.MakeMap)
			if !isMk {
				return
			}
			hs := enclosingLoops(lk.Block())
			if len(hs) == 0 {
				return
			}
			h := hs[0]
			inLoop := func(b *ssa.BasicBlock) bool {
				for _, x := range enclosingLoops(b) {
					if x == h {
						return true
					}
				}
				return false
			}
			grows, follows := false, false
			core.Instrs(uh, func(x ssa.Instruction) {
				if !inLoop(x.Block()) {
					return
				}
				if cl, okC := isBuiltinCall(x, "append"); okC {
					if _, isSl := cl.Type().Underlying().(*types.Slice); isSl {
						grows = true
					}
				}
				if mu, okM := x.(*ssa.MapUpdate); okM && core.Strip(mu.Map) == ssa.Value(mk) {
					follows = true
				}
			})
			if grows {
				nIdx++
				if !follows {
					bad = c.Pos(lk)
				}
			}
		})
		c.Decide(bad == "", "R19.13", "entry-index-follows-the-list", p.Pos(uh.Pos()), fmt.Sprintf("%d map indexes consulted inside a loop that extends the list, each extended there too", nIdx), "UpdateH looks up the entry of a face in a map built before the merge (at "+bad+") while the merge appends entries the map never learns about: a face listed twice among the new entries is stored, and registered, twice (or with the higher cost last)")
	}

	// ---- R19.3 the local table is changed before the operation is published (publishOp
	// may take a snapshot of the table, which must already reflect the operation)
	for _, m := range []string{"Announce", "Withdraw"} {
		fn := c.Fn("R19.3", "dv/table", "PrefixTable", m)
		if fn == nil {
			continue
		}
		pubs := core.FindCallsDeep(fn, core.CalleeID{Pkg: "dv/table", Recv: "PrefixTable", Name: "publishOp"})
		okOrder := len(pubs) > 0
		for _, pc := range pubs {
			if !core.PrecedesDeep(fn, pc, func(x ssa.Instruction) bool {
				if mu, ok := x.(*ssa.MapUpdate); ok {
					_, okF := core.FieldOf(mu.Map, "Prefixes")
					return okF
				}
				return isMapDelete(x, "Prefixes")
			}) {
				okOrder = false
			}
		}
		c.Decide(okOrder, "R19.3", "table-changed-before-publish:"+m, p.Pos(fn.Pos()), "the own prefix set is updated on every path before publishOp", "PrefixTable."+m+" publishes the operation before (or without) changing its own prefix set: a snapshot taken while publishing contradicts the operation log, and a router that starts from the snapshot reconstructs a different prefix set")
		// and nothing changes the set after publishing
		after := false
		for _, pc := range pubs {
			core.InstrsDeep(fn, func(x ssa.Instruction) {
				isMut := isMapDelete(x, "Prefixes")
				if mu, ok := x.(*ssa.MapUpdate); ok {
					if _, okF := core.FieldOf(mu.Map, "Prefixes"); okF {
						isMut = true
					}
				}
				if isMut && core.ReachInstrFrom(core.After(pc), x, nil, nil) != nil {
					after = true
				}
			})
		}
		c.Decide(!after, "R19.3", "no-table-change-after-publish:"+m, p.Pos(fn.Pos()), "the own prefix set is not changed after the operation was published", "PrefixTable."+m+" changes its own prefix set after publishing: the published snapshot and the set disagree")
	}

	// ---- R19.3 Apply order and publish sequence
	if ap := c.Fn("R19.3", "dv/table", "PrefixTable", "Apply"); ap != nil {
		ops := ssa.Value(ap.Params[1])
		var reset, adds, removes ssa.Instruction
		core.InstrsDeep(ap, func(in ssa.Instruction) {
			switch x := in.(type) {
			case *ssa.Store:
				if _, _, ok := storeToField(in, "PrefixTableRouter", "Prefixes"); ok {
					reset = in
				}
			case *ssa.MapUpdate:
				if _, okF := core.FieldOf(x.Map, "Prefixes"); okF {
					adds = in
				}
			case *ssa.Call:
				if isMapDelete(in, "Prefixes") {
					removes = in
				}
			}
		})
		ok := reset != nil && adds != nil && removes != nil
		if ok {
			// order: reset cannot be reached after an add or remove; an add cannot be reached after a remove
			ok = !core.ReachableAfterDeep(ap, adds, reset) && !core.ReachableAfterDeep(ap, removes, reset) && !core.ReachableAfterDeep(ap, removes, adds)
			// and each reads its own list
			_ = ops
		}
		c.Decide(ok, "R19.3", "apply-order", p.Pos(ap.Pos()), "reset, then adds, then removes", "PrefixTable.Apply does not process reset before adds before removes: a snapshot (reset+adds) or an add/remove pair in one op list reconstructs a different prefix set than the sender's")
		resetFlag := &core.Atom{Name: "ops.PrefixOpReset", Match: func(cond ssa.Value) (int, int) {
			if isFieldLoad(cond, ops, "PrefixOpReset") {
				return 1, -1
			}
			return 0, 0
		}}
		if reset != nil {
			g := core.GateDeep(ap, []ssa.Instruction{reset}, pos(resetFlag))
			c.Decide(g.OK && g.PassEdges > 0, "R19.3", "reset-only-when-asked", c.Pos(reset), "the table is cleared only when PrefixOpReset is set", "PrefixTable.Apply clears a router's prefixes although the op list carries no reset")
		}
	}
	if po := c.Fn("R19.3", "dv/table", "PrefixTable", "publishOp"); po != nil {
		incr := core.FindCallsDeep(po, core.CalleeID{Pkg: "*", Recv: "*", Name: "IncrSeqNo"})
		pub := core.FindCallsDeep(po, core.CalleeID{Pkg: "dv/table", Recv: "PrefixTable", Name: "publish"})
		ok := len(incr) == 1 && len(pub) == 1
		if ok {
			sl := &core.Slicer{P: p}
			_, a := core.CallArgs(pub[0].Common())
			usesSeq := false
			for _, l := range sl.Leaves(a[0]) {
				if l.Kind == "call" {
					if cl := l.Val.(*ssa.Call); isCallTo(cl, core.CalleeID{Pkg: "std/encoding", Name: "NewSequenceNumComponent"}) && core.Strip(cl.Call.Args[0]) == incr[0].Value() {
						usesSeq = true
					}
				}
			}
			ok = usesSeq && core.PrecedesDeep(po, pub[0], func(in ssa.Instruction) bool { return in == ssa.Instruction(incr[0]) })
		}
		c.Decide(ok, "R19.3", "publish-under-new-sequence", p.Pos(po.Pos()), "the operation is published under the freshly incremented sequence number", "publishOp does not name the published operation by the sequence number it just incremented: peers fetch a sequence number that holds a different (or no) operation")
	}
	_ = fmt.Sprint

	// ---- R19.6 (shared with C18 R18.2 / R18.5) the installer reads the routing table after
	// every change of a cost column was refreshed and pruned: otherwise it rebuilds from
	// stale next hops and registers routes for destinations that are unreachable
	c.Import(C18, "R19.6", "the installer can run on a routing table whose entries were not refreshed / pruned after a neighbour was removed: routes for unreachable destinations (and through the dead neighbour's face) are registered", 2, func(k string) bool {
		return strings.HasPrefix(k, "R18.2:prune-after-mutation") || strings.HasPrefix(k, "R18.5:cost-write-refreshed")
	})

	// ---- R19.5 the routing daemon and the sync instance that replicates its prefix log do
	// not take each other's locks in opposite orders: the lock-order graph over dv/… and
	// std/sync (calls through interfaces and through callbacks stored in struct fields
	// included) is acyclic. A cycle is a deadlock for some schedule: an announcement is
	// added to the set but never published, and the daemon stalls on its mutex.
	{
		edges := core.LockOrder(p, []string{"dv/dv", "dv/table", "dv/nfdc", "std/sync"})
		cycles := core.LockCycles(edges)
		c.Extra["lock_order_edges"] = len(edges)
		if len(cycles) == 0 {
			c.Ok("R19.5", "lock-order-acyclic", "-", fmt.Sprintf("%d lock-order edges, no cycle", len(edges)))
		}
		for _, cy := range cycles {
			a, b := cy[0], cy[1]
			via := func(e core.LockOrderEdge) string {
				if e.Via == "" {
					return "locks it directly"
				}
				return "calls " + e.Via
			}
			c.Viol("R19.5", "lock-order-acyclic:"+a.From+"<>"+a.To, c.Pos(a.At), fmt.Sprintf("%s is held at %s while %s can be acquired (%s), and on another path %s is held at %s while %s (towards %s) can be acquired (%s): two goroutines taking them in these orders deadlock", a.From, c.Pos(a.At), a.To, via(a), b.From, c.Pos(b.At), b.To, a.From, via(b)))
		}
		c.Floor("R19.5", "lock-order edges in the routing daemon and its sync instance", len(edges), 1)
	}

	// ---- R19.4 the "fetch in progress" mark of a router's prefix log is typestate: once it
	// is set, every way out of prefixDataFetch either leaves an Interest in flight (whose
	// callback clears the mark) or clears the mark itself. The engine does not call the
	// callback of an Interest that could not be made or sent.
	if pf := c.Fn("R19.4", "dv/dv", "Router", "prefixDataFetch"); pf != nil {
		var sets []ssa.Instruction
		core.Instrs(pf, func(in ssa.Instruction) {
			if _, v, ok := storeToField(in, "", "Fetching"); ok {
				if b, isC := core.ConstBool(v); isC && b {
					sets = append(sets, in)
				}
			}
		})
		c.Floor("R19.4", "stores of Fetching = true", len(sets), 1)
		var express ssa.Value
		core.Instrs(pf, func(in ssa.Instruction) {
			if cl, ok := in.(*ssa.Call); ok && cl.Call.IsInvoke() && cl.Call.Method.Name() == "Express" {
				express = cl
			}
		})
		isClear := func(in ssa.Instruction) bool {
			if _, v, ok := storeToField(in, "", "Fetching"); ok {
				if b, isC := core.ConstBool(v); isC && !b {
					return true
				}
			}
			return false
		}
		// a call of a local closure that clears the mark counts as clearing it
		isClearDeep := func(in ssa.Instruction) bool {
			if isClear(in) {
				return true
			}
			if cl, ok := in.(*ssa.Call); ok && !cl.Call.IsInvoke() {
				var fn *ssa.Function
				if mc, isMC := core.Strip(cl.Call.Value).(*ssa.MakeClosure); isMC {
					fn, _ = mc.Fn.(*ssa.Function)
				} else if f2, isF := cl.Call.Value.(*ssa.Function); isF {
					fn = f2
				}
				if fn != nil && fn.Blocks != nil && fn.Parent() == pf {
					all := true
					core.Instrs(fn, func(ssa.Instruction) {})
					r := core.MustFollow(fn, core.Point{Block: fn.Blocks[0], Idx: 0}, isClear, nil)
					all = r.OK
					return all
				}
			}
			return false
		}
		for i, st := range sets {
			cut := map[core.Edge]bool{}
			if express != nil {
				sent := atomNonNil("Express error", express)
				for _, f := range core.EdgeFacts(pf, sent) {
					if !f.Holds { // err == nil: the Interest is in flight
						cut[f.E] = true
					}
				}
			}
			fr := core.MustFollowCut(pf, core.After(st), isClearDeep, nil, cut)
			c.Decide(express != nil && fr.OK, "R19.4", fmt.Sprintf("fetch-mark-cleared-on-failure#%d", i), c.Pos(st), "every exit that leaves no Interest in flight clears the fetch mark", "prefixDataFetch marks the router as being fetched and can return without an Interest in flight and without clearing the mark (a failed MakeInterest or Express: no callback will come): the prefix log of that router is never fetched again, and the peer's view of its announced prefixes stays behind for ever")
		}
		// the callback of the Interest clears the mark on all its paths
		if express != nil {
			cb := express.(*ssa.Call).Call.Args[len(express.(*ssa.Call).Call.Args)-1]
			if mc, ok := core.Strip(cb).(*ssa.MakeClosure); ok {
				if fn, isF := mc.Fn.(*ssa.Function); isF {
					okCb := false
					core.InstrsDeep(fn, func(in ssa.Instruction) {
						if isClear(in) {
							okCb = true
						}
					})
					c.Decide(okCb, "R19.4", "fetch-callback-clears-mark", p.Pos(fn.Pos()), "the Interest's callback clears the fetch mark", "the callback of the prefix-log Interest never clears the fetch mark")
				}
			}
		}
	}

	// ---- R19.7 a log entry is applied to the router whose log it was fetched from. The
	// Interest for an entry is made from one router's name and the sequence number read is
	// recorded for that router, but PrefixTable.Apply picks the table by the ExitRouter the
	// content names: an entry of X's log that names Y replaces the prefixes held for Y, whose
	// own log is fully consumed — nothing corrects it. Apply is reachable only on the edge
	// asserting that the content's ExitRouter name equals the name of the router fetched.
	if ppd := c.Fn("R19.7", "dv/dv", "Router", "processPrefixData"); ppd != nil {
		var applies []ssa.Instruction
		for _, ci := range core.FindCallsDeep(ppd, core.CalleeID{Pkg: "dv/table", Recv: "PrefixTable", Name: "Apply"}) {
			applies = append(applies, ci)
		}
		isOwner := func(v ssa.Value) bool {
			_, path := core.FieldPath(v)
			return len(path) >= 1 && path[len(path)-1] == "Name" && !containsStr(path, "ExitRouter")
		}
		isExit := func(v ssa.Value) bool {
			_, path := core.FieldPath(v)
			return len(path) >= 2 && path[len(path)-1] == "Name" && containsStr(path, "ExitRouter")
		}
		same := atomCallTrue("entry names the router it was fetched from", func(cl *ssa.Call) bool {
			id, ok := core.Callee(&cl.Call)
			if !ok || id.Name != "Equal" || len(cl.Call.Args) != 2 {
				return false
			}
			a, b := cl.Call.Args[0], cl.Call.Args[1]
			return (isExit(a) && isOwner(b)) || (isExit(b) && isOwner(a))
		})
		if len(applies) == 0 {
			c.Und("R19.7", "log-entry-applied-to-its-owner", p.Pos(ppd.Pos()), "processPrefixData no longer calls PrefixTable.Apply")
		} else {
			g := core.GateDeep(ppd, applies, pos(same))
			c.Decide(g.OK && g.PerLit[0] > 0, "R19.7", "log-entry-applied-to-its-owner", c.Pos(applies[0]), "Apply is reachable only when the content's ExitRouter is the router whose log was fetched", "processPrefixData applies a fetched log entry to whichever router its content names (PrefixTable.Apply picks the table by ExitRouter) while the sequence number is recorded for the router it was fetched from: one entry of X's log that names Y replaces the prefix set held for Y, and Y's own, fully consumed log never corrects it — the routes installed for Y's prefixes no longer mirror what Y announced")
		}
	}

	// ---- R19.9 PrefixTable.Apply reports every change it makes: the routes are recomputed only
	// when it returns true, so on every path from a mutation of a router's prefix set (an
	// entry added or removed, the whole set replaced by a reset) the value returned is the
	// constant true — not the initial false, and not something computed from the set after it
	// was changed (a reset that empties a non-empty set must trigger the installer)
	if ap := c.Fn("R19.9", "dv/table", "PrefixTable", "Apply"); ap != nil {
		isPfx := func(v ssa.Value) bool {
			_, path := core.FieldPath(v)
			return len(path) > 0 && path[len(path)-1] == "Prefixes"
		}
		// (the mutations may sit in a worker split off Apply: the analysis runs in the
		// function that holds them, whose result Apply hands on)
		work := ap
		for _, g := range core.Reach(ap) {
			n := 0
			core.Instrs(g, func(in ssa.Instruction) {
				if mu, ok := in.(*ssa.MapUpdate); ok && isPfx(mu.Map) {
					n++
				}
			})
			if n > 0 && g != ap && g.Parent() == nil {
				work = g
			}
		}
		ap = work
		var muts []ssa.Instruction
		core.Instrs(ap, func(in ssa.Instruction) {
			switch x := in.(type) {
			case *ssa.MapUpdate:
				if isPfx(x.Map) {
					muts = append(muts, in)
				}
			case *ssa.Store:
				if fa, ok := x.Addr.(*ssa.FieldAddr); ok {
					if _, fld := core.FieldAddrName(fa); fld == "Prefixes" {
						muts = append(muts, in)
					}
				}
			case *ssa.Call:
				if b, ok := x.Call.Value.(*ssa.Builtin); ok && b.Name() == "delete" && len(x.Call.Args) == 2 && isPfx(x.Call.Args[0]) {
					muts = append(muts, in)
				}
			}
		})
		type leaf struct {
			v    ssa.Value
			from *ssa.BasicBlock // control arrives from this block with value v
		}
		var leaves []leaf
		core.Instrs(ap, func(in ssa.Instruction) {
			r, ok := in.(*ssa.Return)
			if !ok || len(r.Results) != 1 {
				return
			}
			seen := map[ssa.Value]bool{}
			var walk func(v ssa.Value, from *ssa.BasicBlock)
			walk = func(v ssa.Value, from *ssa.BasicBlock) {
				v = core.Strip(v)
				if ph, isPhi := v.(*ssa.Phi); isPhi {
					if seen[v] {
						return
					}
					seen[v] = true
					for i, e := range ph.Edges {
						walk(e, ph.Block().Preds[i])
					}
					return
				}
				leaves = append(leaves, leaf{v, from})
			}
			walk(r.Results[0], r.Block())
		})
		reach := func(a, b *ssa.BasicBlock) bool {
			if a == b {
				return true
			}
			seen := map[*ssa.BasicBlock]bool{a: true}
			work := []*ssa.BasicBlock{a}
			for len(work) > 0 {
				x := work[len(work)-1]
				work = work[:len(work)-1]
				for _, s2 := range x.Succs {
					if s2 == b {
						return true
					}
					if !seen[s2] {
						seen[s2] = true
						work = append(work, s2)
					}
				}
			}
			return false
		}
		// A result computed from the REQUEST instead of a flag: `return ops.Reset ||
		// len(ops.Adds) > 0 || len(ops.Removes) > 0`. Each mutation happens under a
		// condition on the request (inside `if ops.Reset`, inside the loop over ops.Adds);
		// a leaf that IS that condition is true after the mutation, and a leaf that is only
		// reached over the failing edge of that condition is not reached after it.
		fieldOfReq := func(v ssa.Value) string {
			_, path := core.FieldPath(core.StripConv(v))
			if len(path) > 0 && strings.HasPrefix(path[len(path)-1], "PrefixOp") {
				return path[len(path)-1]
			}
			return ""
		}
		condKey := func(v ssa.Value) string {
			v = core.Strip(v)
			if f := fieldOfReq(v); f != "" {
				if b, isB := v.Type().Underlying().(*types.Basic); isB && b.Kind() == types.Bool {
					return "set:" + f
				}
			}
			if op, x, y, ok := core.Cmp(v); ok {
				if l, isLen := core.LenOf(core.StripConv(x)); isLen {
					if f := fieldOfReq(l); f != "" {
						if k, isK := core.ConstInt(y); isK && ((op == token.GTR && k == 0) || (op == token.NEQ && k == 0) || (op == token.GEQ && k == 1)) {
							return "nonempty:" + f
						}
					}
				}
			}
			return ""
		}
		mutKey := func(m ssa.Instruction) string {
			for b := m.Block(); b != nil; b = b.Idom() {
				d := b.Idom()
				if d == nil || len(d.Instrs) == 0 {
					continue
				}
				iff, isIf := d.Instrs[len(d.Instrs)-1].(*ssa.If)
				if !isIf || d.Succs[0] != b && !d.Succs[0].Dominates(b) {
					continue
				}
				if k := condKey(iff.Cond); strings.HasPrefix(k, "set:") {
					return k
				}
				// the continuation test of the loop over a list of the request: i < len(ops.X)
				if op, _, y, ok := core.Cmp(iff.Cond); ok && op == token.LSS {
					if l, isLen := core.LenOf(core.StripConv(y)); isLen {
						if f := fieldOfReq(l); f != "" {
							return "nonempty:" + f
						}
					}
				}
			}
			return ""
		}
		excluded := func(from *ssa.BasicBlock, key string) bool {
			for b := from; b != nil; b = b.Idom() {
				d := b.Idom()
				if d == nil || len(d.Instrs) == 0 {
					continue
				}
				if iff, isIf := d.Instrs[len(d.Instrs)-1].(*ssa.If); isIf && condKey(iff.Cond) == key && len(d.Succs) == 2 && (d.Succs[1] == b || d.Succs[1].Dominates(b)) && d.Succs[0] != b {
					return true
				}
			}
			return false
		}
		bad := ""
		for _, m := range muts {
			mk := mutKey(m)
			for _, lf := range leaves {
				if b, isC := core.ConstBool(lf.v); isC && b {
					continue
				}
				if mk != "" && (condKey(lf.v) == mk || excluded(lf.from, mk)) {
					continue
				}
				if reach(m.Block(), lf.from) {
					bad = fmt.Sprintf("after the change at %s the function can return %s", c.Pos(m), describeValue(lf.v))
				}
			}
		}
		c.Decide(len(muts) >= 2 && bad == "", "R19.9", "apply-reports-every-change", p.Pos(ap.Pos()), fmt.Sprintf("%d mutations of a prefix set; the value returned after each is the constant true", len(muts)), "PrefixTable.Apply does not report a change it made ("+bad+"): the installer is not triggered, and routes for prefixes that the router withdrew (a snapshot that resets its set to nothing) stay installed")
		c.Floor("R19.9", "mutations of a prefix set in Apply", len(muts), 2)
	}

	// ---- R19.10 next-hop lists collected per prefix do not share storage. fibUpdate gathers,
	// per prefix, the next hops of every exit router by appending to the list kept in a map:
	// a list that was put into the map as it was handed in (not as the result of an append or
	// a copy) shares its backing array with the caller's slice — which is registered under
	// every prefix of that exit router — so appending the next hops of a second exit router to
	// one prefix overwrites the spare capacity under another prefix's list.
	if fu := c.Fn("R19.10", "dv/dv", "Router", "fibUpdate"); fu != nil {
		type mapUse struct {
			appendsTo bool
			stores    []ssa.Instruction
		}
		uses := map[ssa.Value]*mapUse{}
		rootOf := func(m ssa.Value) ssa.Value {
			m = core.Strip(m)
			if u, ok := m.(*ssa.UnOp); ok { // a captured map: load of the free variable / cell
				return u.X
			}
			return m
		}
		core.InstrsDeep(fu, func(in ssa.Instruction) {
			if cl, ok := isBuiltinCall(in, "append"); ok && len(cl.Call.Args) >= 1 {
				base := core.Strip(cl.Call.Args[0])
				if ex, isEx := base.(*ssa.Extract); isEx {
					base = ex.Tuple
				}
				if lk, isLk := base.(*ssa.Lookup); isLk {
					if _, isMap := lk.X.Type().Underlying().(*types.Map); isMap {
						r := rootOf(lk.X)
						if uses[r] == nil {
							uses[r] = &mapUse{}
						}
						uses[r].appendsTo = true
					}
				}
			}
			if mu, ok := in.(*ssa.MapUpdate); ok {
				if mt, isMap := mu.Map.Type().Underlying().(*types.Map); isMap {
					if _, isSl := mt.Elem().Underlying().(*types.Slice); isSl {
						r := rootOf(mu.Map)
						if uses[r] == nil {
							uses[r] = &mapUse{}
						}
						uses[r].stores = append(uses[r].stores, in)
					}
				}
			}
		})
		nMaps := 0
		bad := ""
		for _, u := range uses {
			if !u.appendsTo {
				continue
			}
			nMaps++
			for _, st := range u.stores {
				v := core.Strip(st.(*ssa.MapUpdate).Value)
				owned := false
				switch x := v.(type) {
				case *ssa.Call:
					if b, isB := x.Call.Value.(*ssa.Builtin); isB && b.Name() == "append" {
						owned = true
					}
					if id, okID := core.Callee(&x.Call); okID && (id.Name == "Clone" || id.Name == "Clip") {
						owned = true
					}
				case *ssa.MakeSlice, *ssa.Const:
					owned = true
				case *ssa.Slice:
					if x.Max != nil {
						owned = true
					}
				}
				if !owned {
					bad = c.Pos(st)
				}
			}
		}
		c.Decide(bad == "", "R19.10", "collected-next-hops-own-their-storage", p.Pos(fu.Pos()), fmt.Sprintf("%d map(s) of lists that are appended to; every list stored is the result of an append or a copy", nMaps), "fibUpdate puts a next-hop list into its per-prefix map as it was handed in (at "+bad+") and appends to the lists of that map later: the list shares its backing array with the slice the caller registers under every prefix of the same exit router, so the next hops appended for one multi-homed prefix overwrite those of another — routes are installed to faces of the wrong exit router")
		c.Floor("R19.10", "maps of next-hop lists that fibUpdate appends to", nMaps, 1)
	}

	// ---- R19.8 the prefix table and the route installer identify a prefix by its name. They
	// key their maps by Name.Hash() and never compare the stored name: announcing, withdrawing
	// or installing one of two prefixes with equal hash acts on the other.
	{
		n := hashKeyRule(c, "R19.8", []string{"dv/table", "dv/dv"}, func(id string) bool {
			return strings.Contains(id, "PrefixTable") || strings.Contains(id, "dv/table.Fib.") || strings.Contains(id, "fibUpdate")
		}, "a prefix announced by a router is replaced or withdrawn by another prefix's operation, at the router and at every peer that replays its log, and the installer registers no route for it")
		c.Floor("R19.8", "maps of the prefix table and the route installer indexed by a name's hash", n, 1)
	}
}

func containsStr(xs []string, x string) bool {
	for _, y := range xs {
		if y == x {
			return true
		}
	}
	return false
}

// c19FaceSearchCoversAdditions — R19.15. UpdateH merges the desired next hops into the list
// of installed ones: "is this face already there" has to be asked of the list as it stands
// now, additions of this round included (a prefix announced by two routers behind the same
// face yields two desired entries for one face). A search over a slice header taken before
// the merge loop does not see the entries appended since: the face is listed twice, at two
// costs. Decided: the slice whose elements' FaceId is compared is the loop-carried list the
// round appends to, not a value fixed before the loop.
func c19FaceSearchCoversAdditions(c *core.Ctx) {
	p := c.P
	uh := c.Fn("R19.15", "dv/table", "Fib", "UpdateH")
	if uh == nil {
		return
	}
	isEntrySlice := func(v ssa.Value) bool {
		return strings.HasSuffix(v.Type().String(), "[]"+core.ModPath+"/dv/table.FibEntry")
	}
	var carried func(v ssa.Value, d int, seen map[ssa.Value]bool) bool
	carried = func(v ssa.Value, d int, seen map[ssa.Value]bool) bool {
		v = core.Strip(v)
		if v == nil || seen[v] || d > 6 {
			return false
		}
		seen[v] = true
		switch x := v.(type) {
		case *ssa.Phi:
			for _, e := range x.Edges {
				if carried(e, d+1, seen) {
					return true
				}
			}
		case *ssa.Call:
			if b, ok := x.Call.Value.(*ssa.Builtin); ok && b.Name() == "append" {
				return true
			}
			if x.Call.StaticCallee() != nil && isEntrySlice(x) {
				return true // a helper handing back the updated list
			}
		}
		return false
	}
	current := func(v ssa.Value) bool {
		_, isPhi := core.Strip(v).(*ssa.Phi)
		return isPhi && carried(v, 0, map[ssa.Value]bool{})
	}
	// the slice a FaceId operand is an element of
	sliceOf := func(v ssa.Value) ssa.Value {
		ld, ok := core.Strip(v).(*ssa.UnOp)
		if !ok || ld.Op != token.MUL {
			return nil
		}
		fa, ok := ld.X.(*ssa.FieldAddr)
		if !ok {
			return nil
		}
		if _, f := core.FieldAddrName(fa); f != "FaceId" {
			return nil
		}
		if ia, ok := fa.X.(*ssa.IndexAddr); ok && isEntrySlice(ia.X) {
			return ia.X
		}
		return nil
	}
	n, bad := 0, ""
	fns := []*ssa.Function{uh}
	inSet := map[*ssa.Function]bool{uh: true}
	for i := 0; i < len(fns) && i < 16; i++ {
		core.Instrs(fns[i], func(in ssa.Instruction) {
			if ci, ok := in.(ssa.CallInstruction); ok {
				if g := ci.Common().StaticCallee(); g != nil && !inSet[g] && g.Pkg != nil && g.Pkg.Pkg.Path() == core.ModPath+"/dv/table" && len(g.Blocks) > 0 {
					inSet[g] = true
					fns = append(fns, g)
				}
			}
		})
	}
	var okSlice func(s ssa.Value, d int) bool
	okSlice = func(s ssa.Value, d int) bool {
		if current(s) {
			return true
		}
		pr, ok := core.Strip(s).(*ssa.Parameter)
		if !ok || pr.Parent() == uh || d > 2 {
			return false
		}
		g := pr.Parent()
		k := -1
		for i, q := range g.Params {
			if q == pr {
				k = i
			}
		}
		sites, good := 0, true
		for _, f := range fns {
			core.Instrs(f, func(in ssa.Instruction) {
				ci, ok := in.(ssa.CallInstruction)
				if !ok || ci.Common().StaticCallee() != g || k < 0 || k >= len(ci.Common().Args) {
					return
				}
				sites++
				a := ci.Common().Args[k]
				if q, isP := core.Strip(a).(*ssa.Parameter); isP && q.Parent() == uh {
					good = false
					return
				}
				// the list handed to a helper that does the whole merge is the installed list itself
				if !okSlice(a, d+1) && f != uh {
					good = false
				} else if f == uh && !okSlice(a, d+1) {
					// accepted only when the helper carries the loop itself (its own phi is checked there)
					hasLoopAppend := false
					core.Instrs(g, func(x ssa.Instruction) {
						if ph, ok := x.(*ssa.Phi); ok && isEntrySlice(ph) && carried(ph, 0, map[ssa.Value]bool{}) {
							hasLoopAppend = true
						}
					})
					if !hasLoopAppend {
						good = false
					}
				}
			})
		}
		return sites > 0 && good
	}
	check := func(s ssa.Value, at string) {
		if s == nil {
			return
		}
		if pr, ok := core.Strip(s).(*ssa.Parameter); ok && pr.Parent() == uh {
			return // the desired entries themselves
		}
		n++
		if !okSlice(s, 0) {
			bad = at
		}
	}
	for _, fnX := range fns {
		core.Instrs(fnX, func(in ssa.Instruction) {
			if bo, ok := in.(*ssa.BinOp); ok && bo.Op == token.EQL {
				check(sliceOf(bo.X), c.Pos(in))
				check(sliceOf(bo.Y), c.Pos(in))
			}
			// a search handed to a helper with a predicate: slices.IndexFunc(list, func(e) bool { e.FaceId == … })
			ci, ok := in.(ssa.CallInstruction)
			if !ok {
				return
			}
			cm := ci.Common()
			for _, a := range cm.Args {
				mc, ok := core.Strip(a).(*ssa.MakeClosure)
				if !ok {
					continue
				}
				g, _ := mc.Fn.(*ssa.Function)
				if g == nil {
					continue
				}
				cmpFace := false
				core.Instrs(g, func(x ssa.Instruction) {
					if fa, ok := x.(*ssa.FieldAddr); ok {
						if _, f := core.FieldAddrName(fa); f == "FaceId" {
							cmpFace = true
						}
					}
					if fl, ok := x.(*ssa.Field); ok {
						if st, ok := fl.X.Type().Underlying().(*types.Struct); ok && st.Field(fl.Field).Name() == "FaceId" {
							cmpFace = true
						}
					}
				})
				if !cmpFace {
					continue
				}
				for _, b := range cm.Args {
					if isEntrySlice(b) {
						check(b, c.Pos(in))
					}
				}
			}
		})
	}
	c.Decide(bad == "", "R19.15", "face-search-covers-this-rounds-additions", p.Pos(uh.Pos()), fmt.Sprintf("%d face comparison(s), each over the list the merge loop appends to", n), "UpdateH looks for an installed entry of the same face in a list fixed before the merge loop (search at "+bad+"): an entry appended earlier in the same round is not found, so a prefix announced by two routers behind one face is installed twice for that face — the later, costlier entry overwrites the registration and the face is not held at its lowest cost")
	c.Floor("R19.15", "face comparisons in UpdateH's merge", n, 1)
}
