package props

import (
	"fmt"

	"ndndcheck/core"

	"golang.org/x/tools/go/ssa"
)

// c19FaceChangeIsDirty — R19.11 "nothing for … faces a neighbour no longer uses": when a ping
// moves a neighbour to another face, RecvPing re-registers the neighbour's routes and tells
// its caller that the FIB must be recomputed. That answer is unconditional: every return of
// RecvPing that follows a call of the (un)registration helpers reports `true` as a constant.
// An answer computed from the neighbour's state at that point depends on what the helpers
// have just done to that state (two edits that each look harmless: "report only when a face
// is replaced" + "routeUnregister clears the face id") and a face change then never reaches
// fibUpdate: routes stay on the face the neighbour left.
func c19FaceChangeIsDirty(c *core.Ctx) {
	fn := c.Fn("R19.11", "dv/table", "NeighborState", "RecvPing")
	if fn == nil {
		return
	}
	isReg := func(in ssa.Instruction) bool {
		cl, ok := in.(*ssa.Call)
		if !ok {
			return false
		}
		cal := cl.Call.StaticCallee()
		if cal == nil || cal.Signature.Recv() == nil || cal.Pkg == nil || cal.Pkg != fn.Pkg {
			return false
		}
		// a helper of the same type that talks to the forwarder (deep: a management command)
		talks := false
		core.InstrsDeep(cal, func(x ssa.Instruction) {
			if ci, ok := x.(ssa.CallInstruction); ok {
				if c2 := ci.Common().StaticCallee(); c2 != nil && c2.Name() == "Exec" {
					talks = true
				}
			}
		})
		return talks
	}
	var regs []ssa.Instruction
	core.Instrs(fn, func(in ssa.Instruction) {
		if isReg(in) {
			regs = append(regs, in)
		}
	})
	n := 0
	bad := ""
	core.Instrs(fn, func(in ssa.Instruction) {
		ret, ok := in.(*ssa.Return)
		if !ok || len(ret.Results) != 2 {
			return
		}
		after := false
		for _, r := range regs {
			if core.ReachableFrom(core.After(r), ret) {
				after = true
			}
		}
		if !after {
			return
		}
		n++
		if b, isK := core.ConstBool(ret.Results[1]); !isK || !b {
			bad = c.Pos(ret)
		}
	})
	c.Decide(bad == "", "R19.11", "face-change-reports-dirty", c.P.Pos(fn.Pos()), fmt.Sprintf("%d return(s) after the routes were re-registered, each reports true", n), "RecvPing re-registers the neighbour's routes on a new face and then reports whether the FIB is dirty with a computed value (return at "+bad+") instead of true: the value is read from state the (un)registration helpers have just changed, so a change of face can go unreported — fibUpdate is not run and the routes through this neighbour stay on the face it no longer uses")
	c.Floor("R19.11", "registration helpers called by RecvPing", len(regs), 2)
}
