package props

import (
	"fmt"
	"go/token"
	"go/types"
	"os"
	"sort"
	"strings"

	"ndndcheck/core"

	"golang.org/x/tools/go/ssa"
)

// isFieldCall: in is a dynamic call of the function value stored in field `field` of
// some object; the object is returned.
func isFieldCall(in ssa.Instruction, field string) (ssa.Value, bool) {
	cl, ok := in.(*ssa.Call)
	if !ok || cl.Call.IsInvoke() || cl.Call.StaticCallee() != nil {
		return nil, false
	}
	return core.FieldOf(cl.Call.Value, field)
}

// appendsValue: the append call adds the value v (as a variadic element).
func appendsValue(cl *ssa.Call, v ssa.Value) bool {
	for _, a := range cl.Call.Args[1:] {
		sv, ok := core.Strip(a).(*ssa.Slice)
		if !ok {
			continue
		}
		al, ok := sv.X.(*ssa.Alloc)
		if !ok {
			continue
		}
		for _, r := range core.Refs(al) {
			ia, ok := r.(*ssa.IndexAddr)
			if !ok {
				continue
			}
			for _, r2 := range core.Refs(ia) {
				if st, ok := r2.(*ssa.Store); ok && core.Same(st.Val, v) {
					return true
				}
			}
		}
	}
	return false
}

// C20 — Every expressed Interest resolves exactly once, only with Data that satisfies it.
func C20(c *core.Ctx) {
	c.Explain = "Interleavings as such are NOT decided, nor that a Nack's subtree deletion loses no descendant. Decided structural necessary conditions in std/engine/basic: (R20.1) every invocation of a pending Interest's callback happens with the PIT lock held (must-held lockset, closures included), on a path on which that entry is not put back into the node's list, and is followed before the lock is released by the replacement of the node's list (SetValue) or the deletion of the node — so an entry that was resolved cannot be resolved again by a later packet or timer; the timeout is cancelled before the Data and Nack callbacks; (R20.2) onData: the callback is unreachable for an entry when the Data name is longer than the Interest name and CanBePrefix is unset, and when an implicit digest was requested and differs; the timeout callback is unreachable while the deadline is still after now, and the timer is scheduled with lifetime + margin; onInterest hands the Interest to the first non-nil handler walking Parent() from the longest-prefix node, under the FIB lock; Reply sends nothing once the deadline has passed."
	c.RuleText = "instances: every dynamic call of pendInt.callback in package std/engine/basic (discovered), the gates of onData, the timeout closure, the handler lookup and Reply closures of onInterest. Non-trivial = a call site with a lockset/path/gate to decide."
	p := c.P
	pkg := core.ModPath + "/std/engine/basic"
	_, held := core.EntryLocks(p, pkg)

	// the timeout sweep: the closures handed to Timer.Schedule and their private helpers —
	// there the timer itself has fired and there is nothing to cancel
	timeoutPath := map[*ssa.Function]bool{}
	for _, fn := range p.FuncsIn(pkg) {
		core.Instrs(fn, func(in ssa.Instruction) {
			ci, ok := in.(ssa.CallInstruction)
			if !ok || !ci.Common().IsInvoke() || ci.Common().Method.Name() != "Schedule" {
				return
			}
			for _, a := range ci.Common().Args {
				if mc, ok := core.Strip(a).(*ssa.MakeClosure); ok {
					for _, g := range core.Reach(mc.Fn.(*ssa.Function)) {
						timeoutPath[g] = true
					}
				}
			}
		})
	}
	nCb := 0
	for _, fn := range p.FuncsIn(pkg) {
		if strings.HasSuffix(p.File(fn.Pos()), "_test.go") {
			continue
		}
		core.Instrs(fn, func(in ssa.Instruction) {
			entry, ok := isFieldCall(in, "callback")
			if !ok {
				return
			}
			if !isNamed(core.Deref(entry.Type()), "pendInt") {
				return
			}
			nCb++
			fname := core.FuncName(fn)
			c.Funcs[fname] = true
			key := fmt.Sprintf("%s#%d", fname, nCb)
			// (a) lock
			h := held[fn][in]
			c.Decide(h["W:Engine.pitLock"], "R20.1", "callback-under-pit-lock:"+key, c.Pos(in), "pending-Interest callback invoked with pitLock held: "+h.String(), fname+" invokes a pending Interest's callback without holding the PIT lock (lockset "+h.String()+"): a concurrent timer or packet can resolve the same entry again")
			// (b) not re-appended on this path within the iteration
			hdr := loopHeader(in.Block())
			reapp := false
			core.Instrs(fn, func(x ssa.Instruction) {
				cl, ok := isBuiltinCall(x, "append")
				if !ok || !appendsValue(cl, entry) {
					return
				}
				stop := func(y ssa.Instruction) bool { return hdr != nil && y.Block() == hdr }
				if core.ReachInstrFrom(core.After(in), x, nil, stop) != nil {
					reapp = true
				}
			})
			c.Decide(!reapp, "R20.1", "resolved-entry-not-kept:"+key, c.Pos(in), "after its callback the entry is not appended to the list that stays pending", fname+" keeps an entry in the pending list after invoking its callback: the same Interest resolves again on the next Data, Nack or timer")
			// (c) list replaced or node deleted before returning
			fr := core.MustFollowDeep(core.RootOf(fn), core.After(in), func(x ssa.Instruction) bool {
				ci, ok := x.(ssa.CallInstruction)
				if !ok {
					return false
				}
				id, ok := core.Callee(ci.Common())
				return ok && id.Pkg == "std/engine/basic" && id.Name == "SetValue"
			}, nil)
			c.Decide(fr.OK, "R20.1", "pending-list-replaced:"+key, c.Pos(in), "the node's list is replaced (SetValue) on every path after the callback, before the lock is released", fname+" can return after invoking a callback without replacing the node's pending list: the timeout closures keep their node, so a timer that already fired and waits for the lock finds the resolved entries again and resolves them a second time (unlinking the node from the trie does not help)")
			// (d) timeout cancelled first (Data and Nack paths)
			if !timeoutPath[fn] {
				okCancel := core.PrecedesDeep(core.RootOf(fn), in, func(x ssa.Instruction) bool {
					e2, ok := isFieldCall(x, "timeoutCancel")
					return ok && core.Same(e2, entry)
				})
				c.Decide(okCancel, "R20.1", "timeout-cancelled-first:"+key, c.Pos(in), "timeoutCancel() of the same entry precedes the callback", fname+" resolves an entry without cancelling its timeout first: the timer later fires for a list the entry is no longer in (harmless) or, if the node was re-used, resolves a newer Interest early")
			}
		})
	}
	c.Floor("R20.1", "pending-Interest callback invocations", nCb, 3)

	// every entry of a scanned list is accounted for: resolved, kept, or the process dies
	nLoops := 0
	seenLoop := map[*ssa.BasicBlock]bool{}
	for _, fn := range p.FuncsIn(pkg) {
		core.Instrs(fn, func(in ssa.Instruction) {
			entry, ok := isFieldCall(in, "callback")
			if !ok {
				return
			}
			h := loopHeader(in.Block())
			if h == nil || seenLoop[h] {
				return
			}
			seenLoop[h] = true
			nLoops++
			fname := core.FuncName(fn)
			okAll := everyIterationPasses(fn, h, func(x ssa.Instruction) bool {
				if e2, ok := isFieldCall(x, "callback"); ok && core.Same(e2, entry) {
					return true
				}
				if _, ok := x.(*ssa.Panic); ok {
					return true
				}
				if ci, ok := x.(ssa.CallInstruction); ok && ci.Common().StaticCallee() != nil && strings.HasPrefix(ci.Common().StaticCallee().Name(), "Fatal") {
					return true
				}
				if cl, ok := isBuiltinCall(x, "append"); ok {
					return appendsValue(cl, entry)
				}
				return false
			})
			c.Decide(okAll, "R20.1", "every-entry-resolved-or-kept:"+fname, c.Pos(in), "each iteration over the node's list either resolves the entry or keeps it in the new list", fname+" can drop an entry of the pending list without invoking its callback and without keeping it: that Interest never resolves")
		})
	}
	c.Floor("R20.1", "resolution loops", nLoops, 3)

	// ---- R20.3 pruning never loses pending Interests or handlers
	c20Pruning(c)
	// ---- R20.4 every node gets its own list storage
	c20FreshLists(c, pkg)
	c20Round4(c, pkg)
	c20TimeoutNode(c, pkg)
	c20ReplyDeadline(c)
	c20NackByHeader(c)

	// ---- R20.2 onData gates
	if od := c.Fn("R20.2", "std/engine/basic", "Engine", "onData"); od != nil {
		pkt := ssa.Value(od.Params[1])
		var cbs []ssa.Instruction
		var entry ssa.Value
		core.InstrsDeep(od, func(in ssa.Instruction) {
			if e, ok := isFieldCall(in, "callback"); ok {
				cbs = append(cbs, in)
				entry = e
			}
		})
		if len(cbs) == 0 {
			c.Und("R20.2", "onData-callback", p.Pos(od.Pos()), "no callback invocation in onData")
		} else {
			shorter := &core.Atom{Name: "node.Depth()<len(data.Name)", Match: func(cond ssa.Value) (int, int) {
				op, x, y, ok := core.Cmp(cond)
				if !ok {
					return 0, 0
				}
				isDepth := func(v ssa.Value) bool {
					cl, ok := core.Resolve(core.StripConv(v)).(*ssa.Call)
					if !ok {
						return false
					}
					id, ok := core.Callee(&cl.Call)
					return ok && id.Name == "Depth"
				}
				isLen := func(v ssa.Value) bool {
					l, ok := core.LenOf(v)
					return ok && isFieldLoad(l, pkt, "NameV")
				}
				if isLen(x) && isDepth(y) {
					x, y = y, x
					op = core.Swap(op)
				}
				if !isDepth(x) || !isLen(y) {
					return 0, 0
				}
				switch op {
				case token.LSS:
					return 1, -1
				case token.GEQ:
					return -1, 1
				}
				return 0, 0
			}}
			cbp := &core.Atom{Name: "entry.canBePrefix", Match: func(cond ssa.Value) (int, int) {
				if b, ok := core.FieldOf(cond, "canBePrefix"); ok && core.Same(b, entry) {
					return 1, -1
				}
				return 0, 0
			}}
			impSet := atomValNonNil("entry.impSha256!=nil", func(v ssa.Value) bool {
				b, ok := core.FieldOf(v, "impSha256")
				return ok && core.Same(b, entry)
			})
			digestEq := atomCallTrue("digest-matches", func(cl *ssa.Call) bool {
				if _, ok := core.IsCall(cl, idBytesEqual); !ok {
					return false
				}
				for _, a := range cl.Call.Args {
					if b, ok := core.FieldOf(a, "impSha256"); ok && core.Same(b, entry) {
						return true
					}
				}
				return false
			})
			g1 := core.GateDeep(od, cbs, neg(shorter), pos(cbp))
			c.Decide(g1.OK && g1.PerLit[0] > 0 && g1.PerLit[1] > 0, "R20.2", "data-name-match-gate", p.Pos(od.Pos()), "callback unreachable when the Data name is longer than the Interest name and CanBePrefix is unset", "an Interest without CanBePrefix can be resolved by Data with a longer name (name-match gate missing or inverted)")
			g2 := core.GateDeep(od, cbs, neg(impSet), pos(digestEq))
			c.Decide(g2.OK && g2.PerLit[0] > 0 && g2.PerLit[1] > 0, "R20.2", "implicit-digest-gate", p.Pos(od.Pos()), "callback unreachable when an implicit digest was requested and differs", "an Interest that requested an implicit SHA-256 digest can be resolved by Data with a different digest")
			// R20.11: an Interest that ends in an implicit digest names ONE Data packet: it is
			// filed under its name without the digest, and the digest is the last component
			// of the Data's full name — so the Data name must end at that node, CanBePrefix or
			// not. The callback is unreachable for an entry with a digest while the Data name
			// is longer than the node's depth.
			g3 := core.GateDeep(od, cbs, neg(impSet), neg(shorter))
			c.Decide(g3.OK && g3.PerLit[0] > 0 && g3.PerLit[1] > 0, "R20.11", "digest-interest-needs-exact-name", p.Pos(od.Pos()), "callback unreachable for an entry with an implicit digest when the Data name is longer than the Interest name", "an Interest /N/sha256digest=D with CanBePrefix is resolved by Data /N/x whose digest is D: the Data's full name is /N/x/D, which the Interest name neither equals nor prefixes — the Interest is resolved with Data that does not satisfy it and leaves the PIT")
			// the walk covers every ancestor of the longest-prefix node
			asc := false
			core.InstrsDeep(od, func(in ssa.Instruction) {
				if ci, ok := in.(ssa.CallInstruction); ok {
					if id, ok := core.Callee(ci.Common()); ok && id.Name == "Parent" && core.InLoop(in.Block()) {
						asc = true
					}
				}
			})
			// ... and leaves the walk only when the cursor is exhausted: every branch that
			// exits the ancestor loop tests the cursor against nil (stopping at the first
			// node without pending entries would skip the Interests above it)
			core.InstrsDeep(od, func(in ssa.Instruction) {
				ci, ok := in.(ssa.CallInstruction)
				if !ok {
					return
				}
				id, ok := core.Callee(ci.Common())
				if !ok || id.Name != "Parent" || !core.InLoop(in.Block()) {
					return
				}
				// the cursor: the loop-header phi that receives this Parent() result
				var cursor *ssa.Phi
				for _, r := range core.Refs(ci.Value()) {
					if ph, ok := r.(*ssa.Phi); ok && loopHeader(ph.Block()) == ph.Block() {
						cursor = ph
					}
				}
				if cursor == nil {
					return
				}
				h := cursor.Block()
				fn := h.Parent()
				inBody := func(b *ssa.BasicBlock) bool {
					if b == h {
						return true
					}
					for _, x := range enclosingLoops(b) {
						if x == h {
							return true
						}
					}
					return false
				}
				for _, b := range fn.Blocks {
					if !inBody(b) || len(b.Instrs) == 0 {
						continue
					}
					switch t := b.Instrs[len(b.Instrs)-1].(type) {
					case *ssa.Return:
						asc = false
					case *ssa.If:
						leaves := func(x *ssa.BasicBlock) bool {
							if inBody(x) {
								return false
							}
							// a branch into a panic is not a way of ending the walk
							_, isPanic := x.Instrs[len(x.Instrs)-1].(*ssa.Panic)
							return !isPanic
						}
						if !leaves(b.Succs[0]) && !leaves(b.Succs[1]) {
							continue
						}
						op, x, y, okC := core.Cmp(t.Cond)
						if !(okC && (op == token.EQL || op == token.NEQ) && core.IsNilConst(y) && core.Strip(x) == ssa.Value(cursor)) {
							asc = false
						}
					}
				}
			})
			pm := core.FindCallsDeep(od, core.CalleeID{Pkg: "std/engine/basic", Recv: "*", Name: "PrefixMatch"})
			c.Decide(asc && len(pm) == 1, "R20.2", "data-resolves-all-ancestors", p.Pos(od.Pos()), "onData walks Parent() from the longest-prefix node and leaves the walk only when the cursor is nil", "onData does not walk from the longest-prefix node all the way to the root (the ancestor loop can stop before the cursor is nil): pending Interests for shorter prefixes are not resolved by the Data")
		}
	}
	// timeout closure and scheduling in Express
	if ex := c.Fn("R20.2", "std/engine/basic", "Engine", "Express"); ex != nil {
		var tcb ssa.Instruction
		var tfn *ssa.Function
		for _, f := range core.Reach(ex) {
			core.Instrs(f, func(in ssa.Instruction) {
				if _, ok := isFieldCall(in, "callback"); ok {
					tcb = in
					tfn = f
				}
			})
		}
		if tcb == nil {
			c.Und("R20.2", "timeout-callback", p.Pos(ex.Pos()), "no timeout callback found in Express")
		} else {
			entry, _ := isFieldCall(tcb, "callback")
			alive := &core.Atom{Name: "deadline.After(now)", Match: func(cond ssa.Value) (int, int) {
				return timeAfter(cond, func(v ssa.Value) bool {
					b, ok := core.FieldOf(v, "deadline")
					return ok && core.Same(b, entry)
				}, func(v ssa.Value) bool {
					cl, ok := v.(*ssa.Call)
					return ok && cl.Call.IsInvoke() && cl.Call.Method.Name() == "Now"
				})
			}}
			g := core.GateDeep(core.RootOf(tfn), []ssa.Instruction{tcb}, neg(alive))
			c.Decide(g.OK && g.PassEdges > 0, "R20.2", "timeout-not-before-deadline", c.Pos(tcb), "the timeout callback is unreachable while the entry's deadline is after now", "a pending Interest can be timed out before its own deadline (e.g. by the timer of an earlier Interest with the same name)")
		}
		// Schedule(lifetime + margin)
		okSched := false
		for _, f := range core.Reach(ex) {
			core.Instrs(f, func(in ssa.Instruction) {
				ci, ok := in.(ssa.CallInstruction)
				if !ok || !ci.Common().IsInvoke() || ci.Common().Method.Name() != "Schedule" {
					return
				}
				b, ok := core.StripConv(ci.Common().Args[0]).(*ssa.BinOp)
				if !ok || b.Op != token.ADD {
					return
				}
				isMargin := func(v ssa.Value) bool {
					if core.IsGlobal(v, "std/engine/basic", "TimeoutMargin") {
						return true
					}
					k, isC := core.ConstInt(v)
					return isC && k > 0
				}
				if isMargin(b.Y) || isMargin(b.X) {
					okSched = true
				}
			})
		}
		c.Decide(okSched, "R20.2", "timer-after-lifetime-plus-margin", p.Pos(ex.Pos()), "the timeout is scheduled at lifetime + a positive margin", "the timeout timer is not scheduled at lifetime + margin (an Interest can time out earlier than its lifetime)")
		// the entry is inserted under the lock
		_, heldEx := core.EntryLocks(p, pkg)
		okIns := false
		for _, f := range core.Reach(ex) {
			core.Instrs(f, func(in ssa.Instruction) {
				if ci, ok := in.(ssa.CallInstruction); ok {
					if id, ok := core.Callee(ci.Common()); ok && id.Name == "SetValue" && f != tfn {
						okIns = heldEx[f][in]["W:Engine.pitLock"]
					}
				}
			})
		}
		// the new entry is added to the existing list and carries the Interest's own
		// selectors, deadline and callback
		var ent *ssa.Alloc
		var insFn *ssa.Function
		for _, f := range core.Reach(ex) {
			core.Instrs(f, func(in ssa.Instruction) {
				if al, ok := in.(*ssa.Alloc); ok && isNamed(core.Deref(al.Type()), "pendInt") {
					ent = al
					insFn = f
				}
			})
		}
		if ent == nil {
			c.Und("R20.2", "express-entry", p.Pos(ex.Pos()), "no pendInt allocation in Express")
		} else {
			fieldSrc := map[string]ssa.Value{}
			for _, r := range core.Refs(ent) {
				if fa, ok := r.(*ssa.FieldAddr); ok {
					_, fname := core.FieldAddrName(fa)
					for _, r2 := range core.Refs(fa) {
						if st, ok := r2.(*ssa.Store); ok {
							fieldSrc[fname] = st.Val
						}
					}
				}
			}
			sl := &core.Slicer{P: p, Root: ex}
			hasLeaf := func(v ssa.Value, pred func(core.Leaf) bool) bool {
				if v == nil {
					return false
				}
				for _, l := range sl.Leaves(v) {
					if pred(l) {
						return true
					}
				}
				return false
			}
			_, cbpPath := core.FieldPath(fieldSrc["canBePrefix"])
			c.Decide(len(cbpPath) > 0 && cbpPath[len(cbpPath)-1] == "CanBePrefix", "R20.2", "entry-canBePrefix-from-interest", c.Pos(ent), "pendInt.canBePrefix is the Interest's CanBePrefix", "the pending entry's canBePrefix is not taken from the Interest's CanBePrefix flag")
			okCb := hasLeaf(fieldSrc["callback"], func(l core.Leaf) bool { return l.Val == ssa.Value(ex.Params[2]) })
			c.Decide(okCb, "R20.2", "entry-callback-from-caller", c.Pos(ent), "pendInt.callback originates from Express's callback argument", "the pending entry's callback is not the caller's callback")
			okDl := false
			restoreEx := core.WithRoot(ex)
			dl := core.Resolve(derefFree(fieldSrc["deadline"], insFn))
			restoreEx()
			if cl, ok := dl.(*ssa.Call); ok {
				if _, ok := core.IsCall(cl, core.CalleeID{Pkg: "time", Recv: "Time", Name: "Add"}); ok {
					r, _ := core.CallArgs(&cl.Call)
					if rc, ok := core.Strip(r).(*ssa.Call); ok && rc.Call.IsInvoke() && rc.Call.Method.Name() == "Now" {
						okDl = true
					}
				}
			}
			c.Decide(okDl, "R20.2", "entry-deadline-now-plus-lifetime", c.Pos(ent), "pendInt.deadline = timer.Now().Add(lifetime)", "the pending entry's deadline is not now + lifetime")
			// inserted by appending to the node's current list
			okApp := false
			core.Instrs(insFn, func(in ssa.Instruction) {
				cl, ok := isBuiltinCall(in, "append")
				if !ok || !appendsValue(cl, ent) {
					return
				}
				if b, ok := core.Strip(cl.Call.Args[0]).(*ssa.Call); ok {
					if id, ok := core.Callee(&b.Call); ok && id.Name == "Value" {
						for _, r := range core.Refs(cl) {
							if ci, ok := r.(ssa.CallInstruction); ok {
								if id, ok := core.Callee(ci.Common()); ok && id.Name == "SetValue" {
									okApp = true
								}
							}
						}
					}
				}
			})
			c.Decide(okApp, "R20.2", "express-keeps-other-entries", c.Pos(ent), "the entry is appended to the node's current list and stored back", "Express does not append the new entry to the node's existing list (other pending Interests of the same name are lost, or the new one is never recorded)")
			// PIT insertion precedes transmission
			var sends []ssa.Instruction
			core.Instrs(ex, func(in ssa.Instruction) {
				if ci, ok := in.(ssa.CallInstruction); ok && ci.Common().IsInvoke() && ci.Common().Method.Name() == "Send" {
					sends = append(sends, in)
				}
			})
			okOrder := len(sends) > 0
			for _, s := range sends {
				if !core.PrecedesDeep(ex, s, func(x ssa.Instruction) bool {
					cl, ok := x.(*ssa.Call)
					if !ok {
						return false
					}
					if cl.Call.StaticCallee() == insFn {
						return true // the insertion lives in a method of its own
					}
					mc, ok := cl.Call.Value.(*ssa.MakeClosure)
					return ok && mc.Fn == ssa.Value(insFn)
				}) {
					okOrder = false
				}
			}
			c.Decide(okOrder, "R20.2", "pit-insert-before-send", p.Pos(ex.Pos()), "the pending entry is recorded before the Interest is transmitted", "Express transmits the Interest before recording the pending entry: a fast reply is dropped as unsolicited and the Interest then times out")
		}
		c.Decide(okIns, "R20.2", "express-inserts-under-lock", p.Pos(ex.Pos()), "the pending entry is inserted with pitLock held", "Express inserts the pending entry without the PIT lock")
	}
	// onInterest: handler lookup and Reply deadline
	if oi := c.Fn("R20.2", "std/engine/basic", "Engine", "onInterest"); oi != nil {
		okLookup, okReply := false, false
		_, heldOI := core.EntryLocks(p, pkg)
		for _, f := range core.Reach(oi) {
			if f == oi {
				continue
			}
			pm := core.FindCalls(f, core.CalleeID{Pkg: "std/engine/basic", Recv: "*", Name: "PrefixMatch"})
			if len(pm) == 1 {
				// returns n.Value() where n walks Parent() while Value()==nil
				walks := false
				core.Instrs(f, func(in ssa.Instruction) {
					if ci, ok := in.(ssa.CallInstruction); ok {
						if id, ok := core.Callee(ci.Common()); ok && id.Name == "Parent" && core.InLoop(in.Block()) {
							walks = true
						}
					}
				})
				okLookup = walks && heldOI[f][pm[0]]["W:Engine.fibLock"]
				// R20.13: and it is looked up on every call — every return of a handler
				// lies behind the trie lookup of this call. A remembered answer of an
				// earlier lookup (a last-hit cache) is right only until a handler is
				// attached at a longer prefix below it, or detached.
				stale := ""
				core.Instrs(f, func(in ssa.Instruction) {
					r, isR := in.(*ssa.Return)
					if !isR || len(r.Results) != 1 || core.IsNilConst(core.Strip(r.Results[0])) || in.Block() == f.Recover {
						return
					}
					if !core.Precedes(f, r, func(x ssa.Instruction) bool { return x == ssa.Instruction(pm[0]) }) {
						stale = c.Pos(r)
					}
				})
				c.Decide(stale == "", "R20.13", "handler-looked-up-on-every-call", p.Pos(f.Pos()), "every return of a handler lies behind PrefixMatch(name) of the same call", "onInterest can answer with a handler that was not looked up for this Interest (return at "+stale+" without the trie lookup): a remembered handler stays in use after another one was attached at a longer prefix below it — the Interest is not handed to the handler at the longest matching prefix")
			}
			var sends []ssa.Instruction
			core.Instrs(f, func(in ssa.Instruction) {
				if ci, ok := in.(ssa.CallInstruction); ok && ci.Common().IsInvoke() && ci.Common().Method.Name() == "Send" {
					sends = append(sends, in)
				}
			})
			if len(sends) > 0 {
				// "only before the deadline": the send needs an edge asserting that the
				// deadline is strictly after now — at now == deadline the lifetime has fully
				// elapsed (the timeout sweep of Express counts an Interest as expired from
				// that instant on)
				alive := &core.Atom{Name: "Deadline.After(now)", Match: func(cond ssa.Value) (int, int) {
					return timeAfterStrict(cond, func(v ssa.Value) bool {
						_, path := core.FieldPath(v)
						return len(path) > 0 && path[len(path)-1] == "Deadline"
					}, func(v ssa.Value) bool {
						cl, ok := v.(*ssa.Call)
						return ok && cl.Call.IsInvoke() && cl.Call.Method.Name() == "Now"
					})
				}}
				g := core.GateDeep(core.RootOf(f), sends, pos(alive))
				okReply = g.OK && g.PassEdges > 0
			}
		}
		c.Decide(okLookup, "R20.2", "handler-longest-prefix", p.Pos(oi.Pos()), "the handler is the first non-nil value walking Parent() from PrefixMatch(name), under fibLock", "onInterest does not select the handler attached at the longest matching prefix under the FIB lock")
		c.Decide(okReply, "R20.2", "reply-before-deadline", p.Pos(oi.Pos()), "Reply sends only on an edge asserting that the deadline is strictly after now", "Reply transmits Data although the Interest's deadline has been reached (now >= deadline; a test of the form Deadline.Before(now) still sends at now == deadline)")
	}
	// ---- R20.12 a whole network packet in a link-layer frame is taken whether or not the frame
	// spells out "fragment 0 of 1": the engine does not reassemble, so it drops real
	// fragments — but by the VALUES of FragIndex / FragCount, not by their presence (an absent
	// FragIndex is 0, an absent FragCount is 1, and the repository's own forwarder accepts the
	// explicit form). From every edge asserting that one of the two fields is present, the
	// processing of the frame's payload is still reachable.
	if op := c.Fn("R20.12", "std/engine/basic", "Engine", "onPacket"); op != nil {
		var use ssa.Instruction
		core.InstrsDeep(op, func(in ssa.Instruction) {
			if fa, ok := in.(*ssa.FieldAddr); ok && use == nil {
				if tn, fld := core.FieldAddrName(fa); tn == "LpPacket" && fld == "Fragment" {
					use = in
				}
			}
		})
		present := func(field string) *core.Atom {
			return &core.Atom{Name: field + " present", Match: func(cond ssa.Value) (int, int) {
				op2, x, y, ok := core.Cmp(cond)
				if !ok || (op2 != token.EQL && op2 != token.NEQ) {
					return 0, 0
				}
				if core.IsNilConst(x) {
					x, y = y, x
				}
				if !core.IsNilConst(y) {
					return 0, 0
				}
				if _, isF := core.FieldOf(x, field); !isF {
					return 0, 0
				}
				return core.Iff(op2 == token.NEQ)
			}}
		}
		if use == nil {
			c.Und("R20.12", "whole-packet-in-explicit-single-fragment", p.Pos(op.Pos()), "onPacket no longer reads LpPacket.Fragment")
		} else {
			bad := ""
			nEdges := 0
			for _, fld := range []string{"FragIndex", "FragCount"} {
				for _, ef := range core.EdgeFactsDeep(op, present(fld)) {
					if !ef.Holds || ef.E.From.Parent() != use.Parent() {
						continue
					}
					nEdges++
					if core.ReachInstrFrom(core.Point{Block: ef.E.To, Idx: 0}, use, nil, nil) == nil {
						bad = fld
					}
				}
			}
			c.Decide(bad == "", "R20.12", "whole-packet-in-explicit-single-fragment", c.Pos(use), fmt.Sprintf("the payload is still processed on the %d edges asserting that a fragmentation field is present", nEdges), "Engine.onPacket drops every link-layer frame in which "+bad+" is present, also the unfragmented case FragIndex=0 / FragCount=1: the Data (or Nack) inside resolves nothing, so an arriving Data does not resolve the pending Interests it satisfies and they time out")
		}
	}

}

// derefFree: a load of a free variable in closure f is followed to the value the
// enclosing function bound it to (its unique store), when that is unambiguous.
func derefFree(v ssa.Value, f *ssa.Function) ssa.Value {
	if v == nil {
		return nil
	}
	u, ok := core.Strip(v).(*ssa.UnOp)
	if !ok || u.Op != token.MUL {
		return v
	}
	fv, ok := u.X.(*ssa.FreeVar)
	if !ok || f == nil || f.Parent() == nil {
		return v
	}
	for i, x := range f.FreeVars {
		if x != fv {
			continue
		}
		for _, r := range core.Refs(f) {
			mc, ok := r.(*ssa.MakeClosure)
			if !ok || i >= len(mc.Bindings) {
				continue
			}
			var stores []*ssa.Store
			for _, r2 := range core.Refs(mc.Bindings[i]) {
				if st, ok := r2.(*ssa.Store); ok && st.Addr == mc.Bindings[i] {
					stores = append(stores, st)
				}
			}
			if len(stores) == 1 {
				return stores[0].Val
			}
		}
	}
	return v
}

func isNamed(t types.Type, name string) bool {
	n, ok := t.(*types.Named)
	return ok && n.Obj().Name() == name
}

// c20Pruning decides R20.3: (a) the engine never removes trie nodes with the
// unconditional NameTrie.Delete (which drops the subtree and cascades over ancestors
// without looking at their values); (b) in DeleteIf the unlink of a node from its parent
// is reachable only when the predicate held for the node's value, the node has no
// children, and the parent still refers to this very node; (c) the recursion continues
// at the parent with the same predicate.
func c20Pruning(c *core.Ctx) {
	p := c.P
	pkg := core.ModPath + "/std/engine/basic"
	// (a) who may call Delete
	bad := ""
	nCalls := 0
	for _, fn := range p.Funcs() {
		if fn.Pkg == nil || strings.HasSuffix(p.File(fn.Pos()), "_test.go") {
			continue
		}
		core.Instrs(fn, func(in ssa.Instruction) {
			ci, ok := in.(ssa.CallInstruction)
			if !ok {
				return
			}
			id, ok := core.Callee(ci.Common())
			if !ok || id.Pkg != "std/engine/basic" || !strings.HasPrefix(id.Recv, "NameTrie") {
				return
			}
			switch id.Name {
			case "Delete":
				if baseName(fn) != "Delete" { // its own recursion
					bad = c.Pos(in) + " (" + core.FuncName(fn) + ")"
				}
			case "DeleteIf":
				nCalls++
			}
		})
	}
	c.Decide(bad == "", "R20.3", "no-unconditional-node-delete", "-", "no caller of NameTrie.Delete outside the trie: nodes are removed only through DeleteIf with a predicate on the value", "NameTrie.Delete is called at "+bad+": it drops every descendant of the node and unlinks ancestors without looking at their values — pending Interests (or handlers) below and above that name are lost")
	c.Floor("R20.3", "DeleteIf call sites", nCalls, 3)
	// (b) DeleteIf's unlink gates — on the generic body and every instantiation
	n := 0
	// instantiations of the generic trie are not package members: discover them as
	// static callees of the package's functions (transitively)
	var bodies []*ssa.Function
	seenF := map[*ssa.Function]bool{}
	var visit func(f *ssa.Function)
	visit = func(f *ssa.Function) {
		if f == nil || seenF[f] || f.Blocks == nil {
			return
		}
		seenF[f] = true
		if baseName(f) == "DeleteIf" && f.Signature.Recv() != nil {
			bodies = append(bodies, f)
		}
		core.Instrs(f, func(in ssa.Instruction) {
			if ci, ok := in.(ssa.CallInstruction); ok {
				if cal := ci.Common().StaticCallee(); cal != nil && cal.Origin() != nil {
					visit(cal)
				}
			}
		})
	}
	for _, fn := range p.FuncsIn(pkg) {
		visit(fn)
	}
	if os.Getenv("NDNDCHECK_DEBUG") != "" {
		for f := range seenF {
			fmt.Fprintln(os.Stderr, "C20 visited", f.String(), f.Name(), f.Origin() != nil, f.Blocks != nil)
		}
	}
	sort.Slice(bodies, func(i, j int) bool { return core.FuncName(bodies[i]) < core.FuncName(bodies[j]) })
	for _, fn := range bodies {
		n++
		fname := core.FuncName(fn)
		c.Funcs[fname] = true
		// the node being unlinked is the one whose key is deleted from its parent's child
		// map: the receiver in the recursive form, the loop cursor in the iterative form
		self := ssa.Value(fn.Params[0])
		var unlinks []ssa.Instruction
		core.Instrs(fn, func(in ssa.Instruction) {
			if cl, ok := isBuiltinCall(in, "delete"); ok {
				if _, okF := core.FieldOf(cl.Call.Args[0], "chd"); okF {
					unlinks = append(unlinks, in)
					if len(cl.Call.Args) == 2 {
						if nd, okK := core.FieldOf(cl.Call.Args[1], "key"); okK {
							self = core.Strip(nd)
						}
					}
				}
			}
		})
		if len(unlinks) == 0 {
			c.Und("R20.3", "unlink:"+fname, p.Pos(fn.Pos()), "DeleteIf has no delete(parent.chd, key)")
			continue
		}
		predTrue := atomCallTrue("pred(n.val)", func(cl *ssa.Call) bool {
			if cl.Call.IsInvoke() || cl.Call.StaticCallee() != nil || len(cl.Call.Args) != 1 {
				return false
			}
			if cl.Call.Value != ssa.Value(fn.Params[1]) {
				return false
			}
			b, ok := core.FieldOf(cl.Call.Args[0], "val")
			return ok && core.Same(b, self)
		})
		hasKids := &core.Atom{Name: "len(n.chd)>0", Match: func(cond ssa.Value) (int, int) {
			op, x, y, ok := core.Cmp(cond)
			if !ok {
				return 0, 0
			}
			l, isLen := core.LenOf(x)
			k, isC := core.ConstInt(y)
			if !isLen || !isC {
				return 0, 0
			}
			if b, okF := core.FieldOf(l, "chd"); !okF || !core.Same(b, self) {
				return 0, 0
			}
			switch {
			case op == token.GTR && k == 0, op == token.NEQ && k == 0, op == token.GEQ && k == 1:
				return 1, -1
			case op == token.EQL && k == 0, op == token.LEQ && k == 0, op == token.LSS && k == 1:
				return -1, 1
			}
			return 0, 0
		}}
		linked := &core.Atom{Name: "n.par.chd[n.key]==n", Match: func(cond ssa.Value) (int, int) {
			op, x, y, ok := core.Cmp(cond)
			if !ok || (op != token.EQL && op != token.NEQ) {
				return 0, 0
			}
			isLk := func(v ssa.Value) bool {
				lk, ok := core.Strip(v).(*ssa.Lookup)
				if !ok {
					return false
				}
				_, okF := core.FieldOf(lk.X, "chd")
				return okF
			}
			if (isLk(x) && core.Same(y, self)) || (isLk(y) && core.Same(x, self)) {
				return core.Iff(op == token.EQL)
			}
			return 0, 0
		}}
		g1 := core.Gate(fn, unlinks, pos(predTrue))
		g2 := core.Gate(fn, unlinks, neg(hasKids))
		g3 := core.Gate(fn, unlinks, pos(linked))
		c.Decide(g1.OK && g1.PassEdges > 0, "R20.3", "unlink-only-if-predicate:"+fname, p.Pos(fn.Pos()), "a node is unlinked only on the edge asserting pred(n.val)", "DeleteIf can unlink a node whose value does not satisfy the predicate (a node that still holds pending Interests / a handler)")
		c.Decide(g2.OK && g2.PassEdges > 0, "R20.3", "unlink-only-leaf:"+fname, p.Pos(fn.Pos()), "a node is unlinked only on the edge asserting that it has no children", "DeleteIf can unlink a node that still has children: every pending Interest (or handler) below it is lost — later Data for those names is dropped as unsolicited")
		c.Decide(g3.OK && g3.PassEdges > 0, "R20.3", "unlink-only-own-link:"+fname, p.Pos(fn.Pos()), "a node is unlinked only while its parent still refers to it", "DeleteIf on a node that was unlinked earlier (a timeout closure keeps its node) deletes the parent's entry for that key, which by then belongs to a newer node: its pending Interests are lost")
		// (c) recursion at the parent with the same predicate — or, in the iterative form,
		// the cursor advances to its parent on the way back to the loop header
		rec := false
		if ph, ok := self.(*ssa.Phi); ok {
			for _, e := range ph.Edges {
				if b, okF := core.FieldOf(e, "par"); okF && core.Same(b, self) {
					rec = true
				}
			}
		}
		core.Instrs(fn, func(in ssa.Instruction) {
			cl, ok := in.(*ssa.Call)
			if !ok || cl.Call.StaticCallee() == nil || baseName(cl.Call.StaticCallee()) != "DeleteIf" {
				return
			}
			r, a := core.CallArgs(&cl.Call)
			if b, okF := core.FieldOf(r, "par"); okF && core.Same(b, self) && len(a) == 1 && a[0] == ssa.Value(fn.Params[1]) {
				rec = true
			}
		})
		c.Decide(rec, "R20.3", "prune-ancestors-same-predicate:"+fname, p.Pos(fn.Pos()), "the walk continues at the parent with the same predicate", "DeleteIf does not continue at the parent with the same predicate")
	}
	c.Floor("R20.3", "DeleteIf bodies (generic + instantiations)", n, 1)
	// (d) resolution by Nack and handler removal empty exactly the matched node first
	for _, spec := range [][2]string{{"onNack", "a Nack"}, {"DetachHandler", "detaching a handler"}} {
		fn := c.Fn("R20.3", "std/engine/basic", "Engine", spec[0])
		if fn == nil {
			continue
		}
		var dels []ssa.CallInstruction
		core.InstrsDeep(fn, func(in ssa.Instruction) {
			if ci, ok := in.(ssa.CallInstruction); ok {
				if id, ok := core.Callee(ci.Common()); ok && id.Pkg == "std/engine/basic" && id.Name == "DeleteIf" {
					dels = append(dels, ci)
				}
			}
		})
		okClr := len(dels) > 0
		for _, d := range dels {
			node, _ := core.CallArgs(d.Common())
			if !core.PrecedesDeep(fn, d, func(x ssa.Instruction) bool {
				ci, ok := x.(ssa.CallInstruction)
				if !ok {
					return false
				}
				id, ok := core.Callee(ci.Common())
				if !ok || id.Name != "SetValue" {
					return false
				}
				r, a := core.CallArgs(ci.Common())
				if !core.Same(r, node) || len(a) != 1 {
					return false
				}
				if core.IsNilConst(core.Strip(a[0])) {
					return true
				}
				// or the list of the entries that were NOT resolved (a Nack names one
				// implicit digest; the node also holds the Interests with another): a list
				// built here, to which an entry is appended only on paths of the scan on
				// which its callback is not invoked
				return survivorsOnly(fn, a[0])
			}) {
				okClr = false
			}
			if em := core.FindCallsDeep(fn, core.CalleeID{Pkg: "std/engine/basic", Recv: "*", Name: "ExactMatch"}); len(em) != 1 || !core.Same(node, em[0].Value()) {
				okClr = false
			}
		}
		c.Decide(okClr, "R20.3", "clear-exact-node-then-prune:"+spec[0], p.Pos(fn.Pos()), "the node found by ExactMatch is emptied (SetValue(nil)) and then pruned with DeleteIf", spec[1]+" does not empty exactly the matched node before pruning with DeleteIf (entries of other names are affected, or the node is never released)")
	}
}

// survivorsOnly: lst is built in fn from make/nil by appends, and no append of an element
// is followed, inside the same iteration of its loop, by an invocation of that element's
// callback (the resolved entries are exactly the ones left out).
func survivorsOnly(fn *ssa.Function, lst ssa.Value) bool {
	seen := map[ssa.Value]bool{}
	ok := true
	nApp := 0
	var walk func(v ssa.Value)
	walk = func(v ssa.Value) {
		v = core.Strip(v)
		if seen[v] {
			return
		}
		seen[v] = true
		switch x := v.(type) {
		case *ssa.MakeSlice, *ssa.Const:
		case *ssa.Phi:
			for _, e := range x.Edges {
				walk(e)
			}
		case *ssa.Call:
			b, isB := x.Call.Value.(*ssa.Builtin)
			if !isB || b.Name() != "append" || len(x.Call.Args) != 2 {
				ok = false
				return
			}
			nApp++
			walk(x.Call.Args[0])
			// the appended element's callback must not be invoked later in this iteration
			h := loopHeader(x.Block())
			cut := map[core.Edge]bool{}
			if h != nil {
				for _, pr := range h.Preds {
					cut[core.Edge{From: pr, To: h}] = true
				}
			}
			core.Instrs(fn, func(in ssa.Instruction) {
				cl, isCall := in.(*ssa.Call)
				if !isCall || cl.Call.IsInvoke() || cl.Call.StaticCallee() != nil {
					return
				}
				if _, isCb := core.FieldOf(cl.Call.Value, "callback"); !isCb {
					return
				}
				if core.ReachInstrFrom(core.After(x), in, cut, nil) != nil {
					ok = false
				}
			})
		default:
			ok = false
		}
	}
	walk(lst)
	return ok && nApp > 0
}

// c20FreshLists decides R20.4: the list passed to SetValue is built on storage of its own
// (make / nil inside the same iteration of the node walk) or by appending to the same
// node's current list — never on a slice carried over from another node (re-slicing a
// hoisted buffer makes the lists of different nodes share one backing array).
func c20FreshLists(c *core.Ctx, pkg string) {
	p := c.P
	n := 0
	for _, top := range p.FuncsIn(pkg) {
		if strings.HasSuffix(p.File(top.Pos()), "_test.go") || top.Pkg == nil {
			continue
		}
		fn := top
		core.Instrs(fn, func(in ssa.Instruction) {
			ci, ok := in.(ssa.CallInstruction)
			if !ok {
				return
			}
			id, ok := core.Callee(ci.Common())
			if !ok || id.Pkg != "std/engine/basic" || id.Name != "SetValue" {
				return
			}
			node, a := core.CallArgs(ci.Common())
			if len(a) != 1 {
				return
			}
			if _, isSlice := a[0].Type().Underlying().(*types.Slice); !isSlice {
				return
			}
			if core.IsNilConst(core.Strip(a[0])) {
				return
			}
			n++
			fname := core.FuncName(fn)
			loops := enclosingLoops(in.Block())
			why := ""
			seen := map[ssa.Value]bool{}
			var walk func(v ssa.Value)
			walk = func(v ssa.Value) {
				v = core.Strip(v)
				if v == nil || seen[v] || why != "" {
					return
				}
				seen[v] = true
				switch x := v.(type) {
				case *ssa.Phi:
					for _, e := range x.Edges {
						walk(e)
					}
				case *ssa.Call:
					if b, ok := x.Call.Value.(*ssa.Builtin); ok && b.Name() == "append" {
						walk(x.Call.Args[0])
						return
					}
					if id, ok := core.Callee(&x.Call); ok && id.Name == "Value" {
						r, _ := core.CallArgs(&x.Call)
						if core.Same(r, node) {
							return
						}
					}
					// the slices library: Clone returns fresh storage; the in-place
					// operations return (a re-slice of) the storage of their first argument
					g := x.Call.StaticCallee()
					if g != nil && g.Origin() != nil {
						g = g.Origin()
					}
					if g != nil && g.Pkg != nil && g.Pkg.Pkg.Path() == "slices" && len(x.Call.Args) > 0 {
						nm := g.Name()
						if i := strings.IndexByte(nm, '['); i >= 0 {
							nm = nm[:i]
						}
						switch nm {
						case "Clone":
							return
						case "DeleteFunc", "Delete", "Compact", "CompactFunc", "Clip", "Grow", "Insert":
							walk(x.Call.Args[0])
							return
						}
					}
					// a helper of the engine that builds and returns the list
					if rvs := core.ReturnedValues(x); !(len(rvs) == 1 && rvs[0] == ssa.Value(x)) {
						for _, rv := range rvs {
							walk(rv)
						}
						return
					}
					why = "the list comes from " + core.Leaf{Kind: "call", Val: x}.Desc()
				case *ssa.MakeSlice:
					// allocated inside every loop that encloses the SetValue (a helper that
					// allocates is "inside" wherever it is called)
					at := ssa.Instruction(x)
					if x.Parent() != in.Parent() {
						if a2, _, ok := core.CommonFrame(core.RootOf(in.Parent()), x, in); ok {
							at = a2
						}
					}
					ml := enclosingLoops(at.Block())
					for _, h := range loops {
						found := false
						for _, m := range ml {
							if m == h {
								found = true
							}
						}
						if !found {
							why = "the buffer is allocated once outside the walk over the nodes"
						}
					}
				case *ssa.Const:
					// nil
				case *ssa.Slice:
					why = "the list is a re-slice of a buffer that is reused from node to node"
				default:
					why = "the list's storage is of unknown origin"
				}
			}
			walk(a[0])
			c.Decide(why == "", "R20.4", fmt.Sprintf("node-list-own-storage:%s#%d", fname, n), c.Pos(in), "the list stored in the node is built on storage of its own", fname+" stores a pending list that shares its backing array with the list of another node ("+why+"): writing the survivors of the next node overwrites the survivors of this one — Interests vanish or are resolved by Data for another name")
		})
	}
	c.Floor("R20.4", "SetValue(list) sites", n, 3)
}

// baseName: the function's name without type arguments.
func baseName(f *ssa.Function) string {
	if o := f.Origin(); o != nil {
		return o.Name()
	}
	return f.Name()
}

// injectiveComponentString: the string forms of a name component that are one-to-one with
// the component (type and value bytes). Confirmed by reading std/encoding:
// CanonicalString always prints "<type>=<escaped value>"; String prints the numeric
// conventions (segment, byte offset, version, timestamp, sequence number) by VALUE, so the
// values 0x05 and 0x00 0x05 both print as "seg=5" — two components, one string.
var injectiveComponentString = map[string]bool{"CanonicalString": true}

// c20Round4 — rules added for defects found on the unmodified tree by a bug-hunting agent:
//
// R20.6 the pending-Interest / handler trie keys its children by a string form of the
// component that is one-to-one with the component; otherwise Data resolves an Interest
// with a different name and an Interest reaches a handler that is not at a prefix of it.
//
// R20.5 when the transmission of an expressed Interest fails, Express withdraws the
// pending entry and its timer on that path (the returned error is the resolution; the
// callback must not fire on top of it).
//
// R20.7 the three sites that deal with an Interest ending in an implicit digest agree:
// Express files it under the name without the digest and keeps the digest in the entry;
// onData compares the entry's digest; onNack must strip the digest for the node lookup
// and resolve only entries whose digest equals the Nacked name's.
func c20Round4(c *core.Ctx, pkg string) {
	p := c.P
	// ---- R20.6
	nKeys := 0
	// the generic trie's instantiations are not package members: discover them as static
	// callees of the package's functions (transitively)
	var trieFns []*ssa.Function
	seenT := map[*ssa.Function]bool{}
	var visitT func(f *ssa.Function)
	visitT = func(f *ssa.Function) {
		if f == nil || seenT[f] || f.Blocks == nil {
			return
		}
		seenT[f] = true
		trieFns = append(trieFns, f)
		core.Instrs(f, func(in ssa.Instruction) {
			if ci, ok := in.(ssa.CallInstruction); ok {
				if cal := ci.Common().StaticCallee(); cal != nil && cal.Origin() != nil {
					visitT(cal)
				}
			}
		})
	}
	for _, fn := range p.FuncsIn(pkg) {
		visitT(fn)
	}
	sort.Slice(trieFns, func(i, j int) bool { return core.FuncName(trieFns[i]) < core.FuncName(trieFns[j]) })
	for _, fn := range trieFns {
		if strings.HasSuffix(p.File(fn.Pos()), "_test.go") {
			continue
		}
		check := func(in ssa.Instruction, m, key ssa.Value) {
			if _, ok := core.FieldOf(m, "chd"); !ok {
				return
			}
			k := core.Strip(core.ResolveBoundary(core.Strip(key)))
			if _, isKeyField := core.FieldOf(k, "key"); isKeyField {
				return // the key the node was linked under
			}
			if _, isPar := k.(*ssa.Parameter); isPar {
				return // newTrieNode(key, parent): decided at the caller's key
			}
			nKeys++
			c.Funcs[core.FuncName(fn)] = true
			okK, how := false, describeValue(k)
			if cl, isCall := k.(*ssa.Call); isCall {
				if id, okID := core.Callee(&cl.Call); okID {
					how = id.Name
					okK = id.Recv == "Component" && injectiveComponentString[id.Name]
				}
			}
			c.Decide(okK, "R20.6", "trie-key-one-to-one:"+baseName(fn)+":"+how, c.Pos(in), "children are keyed by a one-to-one string form of the component", "the name trie keys a child by "+how+" of the component, which is not one-to-one (the numeric conventions print 0x05 and 0x00 0x05 alike): Data resolves a pending Interest with a different name, and an Interest is handed to a handler that is not attached at a prefix of its name")
		}
		core.Instrs(fn, func(in ssa.Instruction) {
			switch x := in.(type) {
			case *ssa.Lookup:
				check(in, x.X, x.Index)
			case *ssa.MapUpdate:
				check(in, x.Map, x.Key)
			}
		})
	}
	c.Floor("R20.6", "child-map accesses keyed by a component string", nKeys, 2)

	// ---- R20.5
	if ex := c.Fn("R20.5", "std/engine/basic", "Engine", "Express"); ex != nil {
		var send ssa.Value
		core.InstrsDeep(ex, func(in ssa.Instruction) {
			if cl, ok := in.(*ssa.Call); ok && cl.Call.IsInvoke() && cl.Call.Method.Name() == "Send" {
				send = cl
			}
		})
		if send == nil {
			c.Und("R20.5", "failed-send-withdraws-entry", p.Pos(ex.Pos()), "no face.Send invoke found in Express")
		} else {
			failed := atomNonNil("Send error", send)
			withdrawn, cancelled := false, false
			for _, f := range core.EdgeFactsDeep(ex, failed) {
				if !f.Holds {
					continue
				}
				for _, g := range core.Reach(ex) {
					core.Instrs(g, func(in ssa.Instruction) {
						ci, ok := in.(ssa.CallInstruction)
						if !ok {
							return
						}
						reach := false
						if g == f.E.To.Parent() {
							reach = core.ReachInstrFrom(core.Point{Block: f.E.To, Idx: 0}, in, nil, nil) != nil
						} else if g.Parent() == f.E.To.Parent() || g.Parent() == ex {
							// closure: reachable when its MakeClosure / call is reachable from the edge
							for _, r := range *g.Referrers() {
								_ = r
							}
							core.Instrs(f.E.To.Parent(), func(y ssa.Instruction) {
								if mc, isMC := y.(*ssa.MakeClosure); isMC && mc.Fn == ssa.Value(g) {
									if core.ReachInstrFrom(core.Point{Block: f.E.To, Idx: 0}, y, nil, nil) != nil {
										reach = true
									}
								}
							})
						}
						if !reach {
							return
						}
						if id, okID := core.Callee(ci.Common()); okID && id.Name == "SetValue" {
							withdrawn = true
						}
						if !ci.Common().IsInvoke() && ci.Common().StaticCallee() == nil {
							if _, isTC := core.FieldOf(ci.Common().Value, "timeoutCancel"); isTC {
								cancelled = true
							}
						}
					})
				}
			}
			c.Decide(withdrawn && cancelled, "R20.5", "failed-send-withdraws-entry", c.Pos(send.(ssa.Instruction)), "on the Send-error path the pending entry is taken out of its node and its timer cancelled", "Express returns the Send error but leaves the pending entry and its timer in place: the callback later fires (timeout) on top of the error — the Interest resolves twice, and a caller that stopped listening after the error blocks the engine")
		}
	}

	// ---- R20.7
	feature := func(fn *ssa.Function) (typeTest, digestCmp bool) {
		impl, _ := lookupConst(p, "std/encoding", "TypeImplicitSha256DigestComponent")
		core.InstrsDeep(fn, func(in ssa.Instruction) {
			if b, ok := in.(*ssa.BinOp); ok && (b.Op == token.EQL || b.Op == token.NEQ) {
				for _, pair := range [][2]ssa.Value{{b.X, b.Y}, {b.Y, b.X}} {
					if k, isC := core.ConstInt(pair[1]); isC && k == impl {
						if _, isTyp := core.FieldOf(core.StripConv(pair[0]), "Typ"); isTyp {
							typeTest = true
						}
					}
				}
			}
			if ci, ok := in.(ssa.CallInstruction); ok {
				if id, okID := core.Callee(ci.Common()); okID && id.Pkg == "bytes" && id.Name == "Equal" {
					for _, a := range ci.Common().Args {
						if _, isD := core.FieldOf(a, "impSha256"); isD {
							digestCmp = true
						}
					}
				}
			}
		})
		return
	}
	ex := c.Fn("R20.7", "std/engine/basic", "Engine", "Express")
	od := c.Fn("R20.7", "std/engine/basic", "Engine", "onData")
	on := c.Fn("R20.7", "std/engine/basic", "Engine", "onNack")
	if ex != nil && od != nil && on != nil {
		exT, _ := feature(ex)
		_, odC := feature(od)
		onT, onC := feature(on)
		if !exT || !odC {
			c.Ok("R20.7", "nack-honours-implicit-digest", p.Pos(on.Pos()), "Express does not file digest Interests separately / onData does not compare digests: nothing for onNack to agree with")
		} else {
			// bytes.Equal(nil, []byte{}) is true: "no digest" and "an empty digest component"
			// are told apart only by a presence test of the entry's digest
			onP := false
			core.InstrsDeep(on, func(in ssa.Instruction) {
				if b, ok := in.(*ssa.BinOp); ok && (b.Op == token.EQL || b.Op == token.NEQ) {
					for _, pair := range [][2]ssa.Value{{b.X, b.Y}, {b.Y, b.X}} {
						if core.IsNilConst(pair[1]) {
							if _, isD := core.FieldOf(pair[0], "impSha256"); isD {
								onP = true
							}
						}
					}
				}
			})
			c.Decide(onP || !(onT && onC), "R20.7", "nack-digest-presence-compared", p.Pos(on.Pos()), "onNack compares whether the entry has a digest with whether the Nacked name has one", "onNack matches an entry's implicit digest with bytes.Equal alone: a nil digest (the Interest has none) equals an empty one, so a Nack for /N/sha256digest=<empty> resolves the pending Interest /N with a Nack for another name")
			c.Decide(onT && onC, "R20.7", "nack-honours-implicit-digest", p.Pos(on.Pos()), "onNack strips a trailing implicit digest for the node lookup and compares the entries' digests, like Express and onData", "Express files an Interest that ends in an implicit digest under the name without it and onData compares the entry's digest, but onNack looks up the full Nacked name and resolves every entry of the node: a Nack for /N resolves the pending /N/sha256digest=X Interests (their Data then finds nothing pending) and a Nack for /N/sha256digest=X is dropped as unknown")
		}
	}
}

// c20TimeoutNode — R20.8: the timeout of an expressed Interest resolves the entries of the
// node it was filed in. The closure handed to the timer either keeps that node (a captured
// variable) or, if it looks the node up again by name, the engine's pending-Interest trie
// must be the same object for the whole life of the engine (stored only by the
// constructor): a trie replaced in between (at Stop) makes the lookup miss, and the
// Interests pending at that moment are never resolved — not by Data, Nack or timeout.
func c20TimeoutNode(c *core.Ctx, pkg string) {
	p := c.P
	ex := c.Fn("R20.8", "std/engine/basic", "Engine", "Express")
	if ex == nil {
		return
	}
	looksUp := false
	for _, cl := range core.WithClosures(ex) {
		if cl == ex {
			continue
		}
		// closures that sweep a node's list: they call SetValue
		sweeps := false
		core.InstrsDeep(cl, func(in ssa.Instruction) {
			if ci, ok := in.(ssa.CallInstruction); ok {
				if id, okID := core.Callee(ci.Common()); okID && id.Name == "SetValue" {
					sweeps = true
				}
			}
		})
		if !sweeps {
			continue
		}
		core.InstrsDeep(cl, func(in ssa.Instruction) {
			if ci, ok := in.(ssa.CallInstruction); ok {
				if id, okID := core.Callee(ci.Common()); okID && (id.Name == "ExactMatch" || id.Name == "PrefixMatch" || id.Name == "MatchAlways") {
					r, _ := core.CallArgs(ci.Common())
					if _, isPit := core.FieldOf(r, "pit"); isPit {
						looksUp = true
					}
				}
			}
		})
	}
	var stores []string
	for _, fn := range p.FuncsIn(pkg) {
		if strings.HasSuffix(p.File(fn.Pos()), "_test.go") {
			continue
		}
		core.Instrs(fn, func(in ssa.Instruction) {
			if fa, _, ok := storeToField(in, "Engine", "pit"); ok {
				if _, fresh := core.Strip(fa.X).(*ssa.Alloc); !fresh {
					stores = append(stores, core.FuncName(fn)+" at "+c.Pos(in))
				}
			}
		})
	}
	c.Decide(!looksUp || len(stores) == 0, "R20.8", "timeout-resolves-its-own-node", p.Pos(ex.Pos()), "the timeout closure keeps its node, or the trie is never replaced", "the timeout of an expressed Interest finds its node by looking the name up in the engine's trie again, and the trie is replaced while the engine lives ("+strings.Join(stores, "; ")+"): for the Interests pending at that moment the lookup misses — they are resolved neither by Data nor Nack nor timeout")
}

// c20ReplyDeadline — R20.9: the deadline of an incoming Interest is its arrival plus its
// own lifetime whenever it carries one. In onInterest every constant duration that can
// reach Time.Add (the default lifetime) does so only over an edge asserting that
// Lifetime() is nil: an Interest with a lifetime — zero included — is never given the
// default, under which a reply would still be transmitted seconds after the Interest
// expired at the forwarder.
func c20ReplyDeadline(c *core.Ctx) {
	p := c.P
	oi := c.Fn("R20.9", "std/engine/basic", "Engine", "onInterest")
	if oi == nil {
		return
	}
	absent := &core.Atom{Name: "Lifetime() == nil", Match: func(cond ssa.Value) (int, int) {
		op, x, y, ok := core.Cmp(cond)
		if !ok || (op != token.EQL && op != token.NEQ) {
			return 0, 0
		}
		if core.IsNilConst(x) {
			x, y = y, x
		}
		if !core.IsNilConst(y) {
			return 0, 0
		}
		cl, isCall := core.Strip(x).(*ssa.Call)
		if !isCall || !cl.Call.IsInvoke() || cl.Call.Method.Name() != "Lifetime" {
			return 0, 0
		}
		return core.Iff(op == token.EQL)
	}}
	cut, _ := core.CutEdges(oi, pos(absent))
	nAdd, nConst := 0, 0
	bad := ""
	entry := oi.Blocks[0]
	reach := func(b *ssa.BasicBlock) []*ssa.BasicBlock {
		if b == entry {
			return []*ssa.BasicBlock{entry}
		}
		return core.ReachAvoiding(oi, entry, map[*ssa.BasicBlock]bool{b: true}, cut)
	}
	core.Instrs(oi, func(in ssa.Instruction) {
		ci, ok := in.(*ssa.Call)
		if !ok {
			return
		}
		cal := ci.Call.StaticCallee()
		if cal == nil || cal.Name() != "Add" || cal.Pkg == nil || cal.Pkg.Pkg.Path() != "time" || len(ci.Call.Args) != 2 {
			return
		}
		nAdd++
		seen := map[ssa.Value]bool{}
		var walk func(v ssa.Value, at *ssa.BasicBlock, via *core.Edge)
		walk = func(v ssa.Value, at *ssa.BasicBlock, via *core.Edge) {
			switch x := v.(type) {
			case *ssa.Const:
				nConst++
				if via != nil && cut[*via] {
					return
				}
				if path := reach(at); path != nil {
					bad = c.Pos(in) + " via " + p.PathString(path)
				}
			case *ssa.Phi:
				if seen[x] {
					return
				}
				seen[x] = true
				for i, e := range x.Edges {
					pred := x.Block().Preds[i]
					walk(e, pred, &core.Edge{From: pred, To: x.Block()})
				}
			case *ssa.Convert:
				walk(x.X, at, via)
			case *ssa.ChangeType:
				walk(x.X, at, via)
			}
		}
		walk(ci.Call.Args[1], ci.Block(), nil)
	})
	c.Extra["onInterest_deadline_adds"] = nAdd
	c.Decide(nAdd > 0 && nConst > 0 && bad == "", "R20.9", "reply-deadline-from-the-interests-own-lifetime", p.Pos(oi.Pos()), fmt.Sprintf("%d Time.Add in onInterest; the constant default reaches it only where Lifetime() is nil", nAdd), "onInterest can give an Interest that carries a lifetime the default lifetime as its reply deadline ("+bad+"): for an Interest with InterestLifetime 0 (or any value the added condition excludes) a reply is still transmitted seconds after that Interest expired")
}

// c20NackByHeader — R20.10: a packet that carries a Nack header is a Nack, whatever its
// reason code (0, "none", is what a Nack header without a reason decodes to). From every
// edge of onPacket that asserts the Nack header present, the hand-over to the Interest
// handlers is unreachable (the validity-flag idiom of an isNack variable is followed):
// otherwise the application's own Interest comes back to it as an incoming Interest and
// the pending Interest is left to time out instead of resolving with the Nack.
func c20NackByHeader(c *core.Ctx) {
	p := c.P
	op := c.Fn("R20.10", "std/engine/basic", "Engine", "onPacket")
	if op == nil {
		return
	}
	var handovers []ssa.Instruction
	core.Instrs(op, func(in ssa.Instruction) {
		if ci, ok := in.(ssa.CallInstruction); ok {
			if id, okID := core.Callee(ci.Common()); okID && id.Recv == "Engine" && id.Name == "onInterest" {
				handovers = append(handovers, in)
			}
		}
	})
	hasNack := atomValNonNil("LpPacket.Nack != nil", func(v ssa.Value) bool { _, ok := core.FieldOf(v, "Nack"); return ok })
	cut := core.FlagCuts(op, handovers)
	nEdges := 0
	bad := ""
	for _, f := range core.EdgeFacts(op, hasNack) {
		if !f.Holds || cut[f.E] {
			continue
		}
		nEdges++
		for _, h := range handovers {
			if path := core.ReachInstrFrom(core.Point{Block: f.E.To, Idx: 0}, h, cut, nil); path != nil {
				bad = p.PathString(path)
			}
		}
	}
	c.Decide(len(handovers) > 0 && nEdges > 0 && bad == "", "R20.10", "nack-header-decides", p.Pos(op.Pos()), fmt.Sprintf("%d edges assert the Nack header; the hand-over to the Interest handlers is unreachable from them", nEdges), "onPacket can hand a packet that carries a Nack header to the Interest handlers ("+bad+") — e.g. it decides by the reason code, and 0 is what a Nack without a reason decodes to: the application's own Interest is delivered to its handler and the pending Interest is left to time out instead of resolving with the Nack")
}
