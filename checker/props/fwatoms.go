// Package props holds the per-property rule tables. Each file is a list of rule
// instances over resolved program objects; the engines live in package core.
package props

import (
	"fmt"
	"go/constant"
	"go/token"
	"go/types"
	"sort"

	"ndndcheck/core"

	"golang.org/x/tools/go/ssa"
)

var (
	idGetFace    = core.CalleeID{Pkg: "fw/dispatch", Name: "GetFace"}
	idSendPacket = core.CalleeID{Pkg: "fw/dispatch", Recv: "Face", Name: "SendPacket"}
	idScope      = core.CalleeID{Pkg: "fw/dispatch", Recv: "Face", Name: "Scope"}
	idBytesEqual = core.CalleeID{Pkg: "bytes", Name: "Equal"}
)

// scopeConst classifies a constant of type defn.Scope: +1 Local, 0 NonLocal, -1 Unknown.
func scopeConst(v ssa.Value) (int64, bool) {
	c, ok := core.Strip(v).(*ssa.Const)
	if !ok {
		return 0, false
	}
	n, ok := c.Type().(*types.Named)
	if !ok || n.Obj().Name() != "Scope" || n.Obj().Pkg() == nil || n.Obj().Pkg().Path() != core.ModPath+"/fw/defn" {
		return 0, false
	}
	return core.ConstInt(c)
}

// atomNonLocal: "face (the given SSA value, by provenance) has scope NonLocal".
// Idioms: f.Scope() == NonLocal, != NonLocal, == Local (true edge: not non-local),
// != Local (false edge: not non-local); either operand order.
func atomNonLocal(face ssa.Value) *core.Atom {
	return &core.Atom{Name: "nonlocal(face)", Match: func(cond ssa.Value) (int, int) {
		op, x, y, ok := core.Cmp(cond)
		if !ok || (op != token.EQL && op != token.NEQ) {
			return 0, 0
		}
		k, isC := scopeConst(y)
		call := x
		if !isC {
			k, isC = scopeConst(x)
			call = y
		}
		if !isC {
			return 0, 0
		}
		c, ok := core.Strip(call).(*ssa.Call)
		if !ok {
			return 0, 0
		}
		if _, ok := core.IsCall(c, idScope, core.CalleeID{Pkg: "*", Recv: "*", Name: "Scope"}); !ok {
			return 0, 0
		}
		recv, _ := core.CallArgs(&c.Call)
		if recv == nil || !core.Same(recv, face) {
			return 0, 0
		}
		switch {
		case k == 0 && op == token.EQL:
			return 1, -1
		case k == 0 && op == token.NEQ:
			return -1, 1
		case k == 1 && op == token.EQL: // == Local: true ⇒ not non-local; false ⇒ unknown
			return -1, 0
		case k == 1 && op == token.NEQ:
			return 0, -1
		}
		return 0, 0
	}}
}

// isPacketName reports whether v is the name of packet pkt: pkt.Name,
// pkt.L3.Interest.NameV or pkt.L3.Data.NameV (the link service sets all from the same
// decoded packet).
func isPacketName(v, pkt ssa.Value) bool {
	root, path := core.FieldPath(v)
	if root == nil || !core.Same(root, pkt) {
		return false
	}
	switch len(path) {
	case 1:
		return path[0] == "Name"
	case 3:
		return path[0] == "L3" && (path[1] == "Interest" || path[1] == "Data") && path[2] == "NameV"
	}
	return false
}

// isL3Name: v is l3.NameV where l3 is the given *spec.Interest / *spec.Data value.
func isNameOf(v ssa.Value, pkt ssa.Value, l3 ssa.Value) bool {
	if pkt != nil && isPacketName(v, pkt) {
		return true
	}
	if l3 != nil {
		if base, ok := core.FieldOf(v, "NameV"); ok && core.Same(base, l3) {
			return true
		}
	}
	return false
}

// atomLocalhostName: "the first component of the packet's name is 'localhost'":
// bytes.Equal(name[0].Val, LOCALHOST) in either argument order.
func atomLocalhostName(pkt, l3 ssa.Value) *core.Atom {
	return &core.Atom{Name: "localhost(name)", Match: func(cond ssa.Value) (int, int) {
		c, ok := core.Strip(cond).(*ssa.Call)
		if !ok {
			return 0, 0
		}
		if _, ok := core.IsCall(c, idBytesEqual); !ok || len(c.Call.Args) != 2 {
			return 0, 0
		}
		a, b := c.Call.Args[0], c.Call.Args[1]
		if core.IsGlobal(a, "fw/fw", "LOCALHOST") {
			a, b = b, a
		}
		if !core.IsGlobal(b, "fw/fw", "LOCALHOST") {
			return 0, 0
		}
		// a must be name[0].Val
		base, ok := core.FieldOf(a, "Val")
		if !ok {
			return 0, 0
		}
		ia, ok := core.Strip(base).(*ssa.IndexAddr)
		if !ok {
			return 0, 0
		}
		if k, ok := core.ConstInt(ia.Index); !ok || k != 0 {
			return 0, 0
		}
		if !isNameOf(ia.X, pkt, l3) {
			return 0, 0
		}
		return 1, -1
	}}
}

// atomNonEmptyName: len(name) > 0 and equivalent forms.
func atomNonEmptyName(pkt, l3 ssa.Value) *core.Atom {
	return &core.Atom{Name: "nonempty(name)", Match: func(cond ssa.Value) (int, int) {
		op, x, y, ok := core.Cmp(cond)
		if !ok {
			return 0, 0
		}
		lx, isLen := core.LenOf(x)
		k, isC := core.ConstInt(y)
		if !isLen || !isC {
			lx, isLen = core.LenOf(y)
			k, isC = core.ConstInt(x)
			op = core.Swap(op)
		}
		if !isLen || !isC || !isNameOf(lx, pkt, l3) {
			return 0, 0
		}
		switch {
		case (op == token.GTR && k == 0) || (op == token.GEQ && k == 1) || (op == token.NEQ && k == 0):
			return 1, -1
		case (op == token.EQL && k == 0) || (op == token.LSS && k == 1) || (op == token.LEQ && k == 0):
			return -1, 1
		}
		return 0, 0
	}}
}

// outPktField returns the value stored into field name of the dispatch.OutPkt literal
// passed as argument v (a load of a local Alloc).
func outPktField(v ssa.Value, name string) ssa.Value {
	u, ok := core.Strip(v).(*ssa.UnOp)
	if !ok || u.Op != token.MUL {
		return nil
	}
	al, ok := u.X.(*ssa.Alloc)
	if !ok {
		return nil
	}
	var out ssa.Value
	for _, r := range core.Refs(al) {
		fa, ok := r.(*ssa.FieldAddr)
		if !ok {
			continue
		}
		if _, f := core.FieldAddrName(fa); f != name {
			continue
		}
		for _, r2 := range core.Refs(fa) {
			if st, ok := r2.(*ssa.Store); ok && st.Addr == fa {
				out = st.Val
			}
		}
	}
	return out
}

// nilCheckAtom: "v != nil" for the given value (by provenance).
func atomNonNil(name string, v ssa.Value) *core.Atom {
	return &core.Atom{Name: name, Match: func(cond ssa.Value) (int, int) {
		op, x, y, ok := core.Cmp(cond)
		if !ok || (op != token.EQL && op != token.NEQ) {
			return 0, 0
		}
		if core.IsNilConst(x) {
			x, y = y, x
		}
		if !core.IsNilConst(y) || !core.Same(x, v) {
			return 0, 0
		}
		return core.Iff(op == token.NEQ)
	}}
}

func constInt64(o *types.Const) (int64, bool) {
	return constant.Int64Val(constant.ToInt(o.Val()))
}

// lookupConst returns the integer value of a package-level constant.
func lookupConst(p *core.Prog, pkg, name string) (int64, bool) {
	pk := p.Pkgs[core.ModPath+"/"+pkg]
	if pk == nil {
		return 0, false
	}
	o, ok := pk.Types.Scope().Lookup(name).(*types.Const)
	if !ok {
		return 0, false
	}
	return constInt64(o)
}

// recordBranchAgreement: a find-or-create function that returns a record either freshly
// built or updated in place must write, before every return, each field of the record
// that it writes before any other return (sibling branches of one operation agree);
// fields set from the lookup key are identity, not state, and are exempt.
func recordBranchAgreement(c *core.Ctx, rule string, fn *ssa.Function, recType string, keyParam ssa.Value, why map[string]string, only ...string) {
	p := c.P
	fname := core.FuncName(fn)
	type st struct {
		in   ssa.Instruction
		base ssa.Value
	}
	fields := map[string][]st{}
	core.Instrs(fn, func(in ssa.Instruction) {
		s, ok := in.(*ssa.Store)
		if !ok {
			return
		}
		fa, ok := s.Addr.(*ssa.FieldAddr)
		if !ok {
			return
		}
		t, f := core.FieldAddrName(fa)
		if t != recType {
			return
		}
		if keyParam != nil && core.StripConv(s.Val) == keyParam {
			return
		}
		fields[f] = append(fields[f], st{in, fa.X})
	})
	var rets []*ssa.Return
	core.Instrs(fn, func(in ssa.Instruction) {
		if r, ok := in.(*ssa.Return); ok && len(r.Results) > 0 {
			rets = append(rets, r)
		}
	})
	c.Floor(rule, "record fields written by "+fname, len(fields), 3)
	c.Floor(rule, "returns of "+fname, len(rets), 1)
	var names []string
	for f := range fields {
		names = append(names, f)
	}
	sort.Strings(names)
	for _, f := range names {
		if len(only) > 0 {
			keep := false
			for _, o := range only {
				if o == f {
					keep = true
				}
			}
			if !keep {
				continue
			}
		}
		missing := 0
		for _, r := range rets {
			rec := r.Results[0]
			if !core.PrecedesDeep(fn, r, func(x ssa.Instruction) bool {
				for _, s := range fields[f] {
					if s.in == x && core.Same(s.base, rec) {
						return true
					}
				}
				return false
			}) {
				missing++
			}
		}
		msg := why[f]
		if msg == "" {
			msg = "later decisions read a stale value"
		}
		c.Decide(missing == 0, rule, "record-branches-agree:"+fn.Name()+":"+f, p.Pos(fn.Pos()), "every return is preceded by a store of "+recType+"."+f, fmt.Sprintf("%s writes %s.%s when it creates a record but not on every path that updates an existing one (or vice versa; %d return(s) without it): %s", fname, recType, f, missing, msg))
	}
}
