package props

import (
	"fmt"
	"go/types"
	"sort"
	"strings"

	"ndndcheck/core"

	"golang.org/x/tools/go/ssa"
)

// hashKeyedTable is one map whose keys are made from the 64-bit hash of a name.
type hashKeyedTable struct {
	ID        string // "Type.field" or "func:local"
	Pos       string
	Sites     int
	Lookups   int
	Confirmed int // lookups whose result's name is compared with the looked-up name
}

// keyFromNameHash: v derives from Name.Hash() / PrefixHash() (through conversions,
// formatting, small helpers) and from nothing that could tell two names apart.
func keyFromNameHash(v ssa.Value, d int, seen map[ssa.Value]bool) bool {
	v = core.StripConv(v)
	if v == nil || d > 6 || seen[v] {
		return false
	}
	seen[v] = true
	switch x := v.(type) {
	case *ssa.Call:
		if id, ok := core.Callee(&x.Call); ok && (id.Name == "Hash" || id.Name == "PrefixHash") && id.Pkg == "std/encoding" {
			return true
		}
		if cal := x.Call.StaticCallee(); cal != nil && cal.Blocks != nil && cal.Pkg != nil && strings.HasPrefix(cal.Pkg.Pkg.Path(), core.ModPath) {
			found := false
			core.Instrs(cal, func(in ssa.Instruction) {
				if r, isR := in.(*ssa.Return); isR {
					for _, rv := range r.Results {
						if keyFromNameHash(rv, d+1, seen) {
							found = true
						}
					}
				}
			})
			return found
		}
		for _, a := range x.Call.Args {
			if keyFromNameHash(a, d+1, seen) {
				return true
			}
		}
	case *ssa.Phi:
		for _, e := range x.Edges {
			if keyFromNameHash(e, d+1, seen) {
				return true
			}
		}
	case *ssa.Parameter:
		// a hash handed in by the callers (Fib.UpdateH(nameHash, …))
		fn := x.Parent()
		idx := -1
		for i, q := range fn.Params {
			if q == x {
				idx = i
			}
		}
		if core.Current == nil || idx < 0 {
			return false
		}
		callers := core.Current.Callers(fn)
		if len(callers) == 0 {
			return false
		}
		for _, ci := range callers {
			cc := ci.Common()
			if cc.IsInvoke() || idx >= len(cc.Args) || !keyFromNameHash(cc.Args[idx], d+1, seen) {
				return false
			}
		}
		return true
	case *ssa.IndexAddr:
		return keyFromNameHash(x.X, d+1, seen)
	case *ssa.Index:
		return keyFromNameHash(x.X, d+1, seen)
	case *ssa.UnOp:
		return keyFromNameHash(x.X, d+1, seen)
	case *ssa.Extract:
		return keyFromNameHash(x.Tuple, d+1, seen)
	}
	return false
}

// hashKeyedNameTables lists the maps of the given packages that are indexed with a key
// made from a name's 64-bit hash, and how many of their lookups confirm the hit by
// comparing the stored name (enc.Name.Equal on a field of the value found).
func hashKeyedNameTables(p *core.Prog, pkgs []string) []*hashKeyedTable {
	tabs := map[string]*hashKeyedTable{}
	for _, pkg := range pkgs {
		for _, fn := range p.FuncsIn(core.ModPath + "/" + pkg) {
			if strings.HasSuffix(p.File(fn.Pos()), "_test.go") {
				continue
			}
			core.Instrs(fn, func(in ssa.Instruction) {
				var key, m ssa.Value
				var found ssa.Value
				switch x := in.(type) {
				case *ssa.Lookup:
					if _, isMap := x.X.Type().Underlying().(*types.Map); isMap {
						key, m, found = x.Index, x.X, x
					}
				case *ssa.MapUpdate:
					key, m = x.Key, x.Map
				case *ssa.Call:
					if b, ok := x.Call.Value.(*ssa.Builtin); ok && b.Name() == "delete" && len(x.Call.Args) == 2 {
						key, m = x.Call.Args[1], x.Call.Args[0]
					}
				}
				if key == nil || !keyFromNameHash(key, 0, map[ssa.Value]bool{}) {
					return
				}
				id := ""
				if _, path := core.FieldPath(m); len(path) > 0 {
					if t := core.Deref(rootType(m)); t != nil {
						id = strings.TrimPrefix(t.String(), core.ModPath+"/") + "." + strings.Join(path, ".")
					}
				}
				if id == "" {
					// maps local to a function (or to its closures) are reported together
					id = core.FuncName(core.RootOf(fn)) + ":local maps"
				}
				t := tabs[id]
				if t == nil {
					t = &hashKeyedTable{ID: id, Pos: p.Pos(in.Pos())}
					tabs[id] = t
				}
				t.Sites++
				if found == nil {
					return
				}
				t.Lookups++
				// the value found (or component 0 of value, ok): is a name field of it compared?
				vals := []ssa.Value{found}
				for _, r := range core.Refs(found) {
					if ex, ok := r.(*ssa.Extract); ok && ex.Index == 0 {
						vals = append(vals, ex)
					}
				}
				confirmed := false
				core.Instrs(fn, func(in2 ssa.Instruction) {
					ci, ok := in2.(ssa.CallInstruction)
					if !ok {
						return
					}
					cid, ok := core.Callee(ci.Common())
					if !ok || cid.Name != "Equal" || cid.Pkg != "std/encoding" {
						return
					}
					r, a := core.CallArgs(ci.Common())
					for _, v := range append([]ssa.Value{r}, a...) {
						if v == nil {
							continue
						}
						root, path := core.FieldPath(v)
						if len(path) == 0 {
							continue
						}
						for _, fv := range vals {
							if core.Strip(root) == core.Strip(fv) || core.Same(root, fv) {
								confirmed = true
							}
						}
					}
				})
				if confirmed {
					t.Confirmed++
				}
			})
		}
	}
	var out []*hashKeyedTable
	for _, t := range tabs {
		out = append(out, t)
	}
	sort.Slice(out, func(i, j int) bool { return out[i].ID < out[j].ID })
	return out
}

// localMapOrdinal: the position of a make(map…) among those of its function (a key that
// does not depend on line numbers).
func localMapOrdinal(mk *ssa.MakeMap) int {
	n := 0
	found := 0
	core.Instrs(mk.Parent(), func(in ssa.Instruction) {
		if m, ok := in.(*ssa.MakeMap); ok {
			n++
			if m == mk {
				found = n
			}
		}
	})
	return found
}

// hashKeyRule reports, for every map of the packages that is selected by want, whether it
// identifies a name by its hash alone.
func hashKeyRule(c *core.Ctx, rule string, pkgs []string, want func(id string) bool, why string) int {
	n := 0
	for _, t := range hashKeyedNameTables(c.P, pkgs) {
		if !want(t.ID) {
			continue
		}
		n++
		ok := t.Lookups > 0 && t.Confirmed == t.Lookups
		c.Decide(ok, rule, "name-table-keyed-by-hash-alone:"+t.ID, t.Pos, fmt.Sprintf("every one of the %d lookups confirms the hit by comparing the stored name", t.Lookups), fmt.Sprintf("the table %s is indexed by a key made from the 64-bit hash of a name at %d site(s) and %d of its %d lookups accept the entry found without comparing its name: the hash is the unkeyed xxHash64, a second name with the same hash is computed directly, and the two names then share one entry — %s", t.ID, t.Sites, t.Lookups-t.Confirmed, t.Lookups, why))
	}
	return n
}
