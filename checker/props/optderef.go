package props

import (
	"fmt"
	"go/token"
	"go/types"
	"os"
	"path/filepath"
	"sort"
	"strings"

	"ndndcheck/core"

	"golang.org/x/tools/go/ssa"
)

// Optional elements of a decoded TLV message are pointer-typed fields of the generated
// model structs (`*uint64`, `*time.Duration`, `*SubModel`): absent on the wire = nil. A
// consumer of decoded messages that dereferences such a field must have found it present.
//
// optionalDerefs enumerates, in the given packages, every dereference of a value loaded
// from a pointer-typed field of a TLV model struct (a struct type declared in a package
// that holds generated code) and requires the edge asserting `<that field> != nil` on
// every path to it (GateDeep: in the function, through predicate helpers, or at every
// call site of a private helper). Models built locally (the base is a struct allocated in
// the same function and the field is stored there) are not decoded input and are skipped.
type optDeref struct {
	Fn    *ssa.Function
	In    ssa.Instruction
	Field string // Type.Field
	OK    bool
	Why   string
}

func modelPackages(p *core.Prog) map[string]bool {
	out := map[string]bool{}
	for path, pk := range p.Pkgs {
		for _, f := range pk.GoFiles {
			if filepath.Base(f) == "zz_generated.go" {
				out[path] = true
			}
		}
		if len(pk.GoFiles) > 0 {
			if _, err := os.Stat(filepath.Join(filepath.Dir(pk.GoFiles[0]), "zz_generated.go")); err == nil {
				out[path] = true
			}
		}
	}
	return out
}

func optionalDerefs(p *core.Prog, pkgs []string) []optDeref {
	models := modelPackages(p)
	var out []optDeref
	for _, rel := range pkgs {
		for _, fn := range p.FuncsIn(core.ModPath + "/" + rel) {
			if fn.Blocks == nil {
				continue
			}
			if pos := fn.Pos(); pos.IsValid() {
				fname := p.Fset.Position(pos).Filename
				if strings.HasSuffix(fname, "_test.go") || strings.HasSuffix(fname, "zz_generated.go") {
					continue
				}
			}
			core.Instrs(fn, func(in ssa.Instruction) {
				var ptr ssa.Value
				switch x := in.(type) {
				case *ssa.UnOp:
					if x.Op == token.MUL {
						ptr = x.X
					}
				case *ssa.FieldAddr:
					ptr = x.X
				case *ssa.Store:
					ptr = x.Addr
				}
				if ptr == nil {
					return
				}
				u, ok := core.Strip(ptr).(*ssa.UnOp) // the pointer is itself loaded from base.<F>
				if !ok || u.Op != token.MUL {
					return
				}
				fa, ok := u.X.(*ssa.FieldAddr)
				if !ok {
					return
				}
				if _, isPtr := u.Type().Underlying().(*types.Pointer); !isPtr {
					return
				}
				tn, f := core.FieldAddrName(fa)
				// owning struct must be a TLV model
				st := fa.X.Type()
				if pt, ok := st.Underlying().(*types.Pointer); ok {
					st = pt.Elem()
				}
				if !models[core.TypePkgPath(st)] {
					return
				}
				// locally built model: base allocated here
				if al, isAl := core.Strip(fa.X).(*ssa.Alloc); isAl {
					_ = al
					return
				}
				a := atomNonNil(tn+"."+f+"!=nil", u)
				g := core.GateDeep(fn, []ssa.Instruction{in}, pos(a))
				d := optDeref{Fn: fn, In: in, Field: tn + "." + f, OK: g.OK && g.PassEdges > 0}
				if !d.OK {
					// ensure idiom: `if x.F == nil { x.F = &T{} }` — the dereference is
					// unreachable without crossing the != nil edge or a store of a fresh
					// object into the same field
					cut, _ := core.CutEdges(fn, pos(a))
					nStores := 0
					ensure := func(x ssa.Instruction) bool {
						st, ok := x.(*ssa.Store)
						if !ok {
							return false
						}
						fa2, ok := st.Addr.(*ssa.FieldAddr)
						if !ok || fa2.Field != fa.Field || !core.Same(fa2.X, fa.X) {
							return false
						}
						if _, fresh := core.Strip(st.Val).(*ssa.Alloc); fresh {
							nStores++
							return true
						}
						return false
					}
					if core.ReachInstr(fn, in, cut, ensure) == nil && nStores > 0 {
						d.OK = true
					}
				}
				if !d.OK {
					// presence coupled with another element (`Flags` and `Mask` both or
					// neither): path-sensitive in the presence of the coupled elements
					if ok, narrowed := core.PresenceFlow(fn, in, u, core.FlagCuts(fn, []ssa.Instruction{in})); ok && narrowed > 0 {
						d.OK = true
					}
				}
				if !d.OK {
					if why, ok := callerGated(p, fn, u, 4); ok {
						d.OK = true
					} else {
						d.Why = "path without the test: " + p.PathString(g.Path) + why
					}
				}
				out = append(out, d)
			})
		}
	}
	sort.SliceStable(out, func(i, j int) bool { return core.FuncName(out[i].Fn) < core.FuncName(out[j].Fn) })
	return out
}

// reportOptionalDerefs turns the enumeration into obligations: one per (function, field).
func reportOptionalDerefs(c *core.Ctx, rule string, pkgs []string, frozen map[string]string, floor int, consequence string) {
	ds := optionalDerefs(c.P, pkgs)
	type agg struct {
		n   int
		bad *optDeref
	}
	per := map[string]*agg{}
	var keys []string
	for i := range ds {
		d := &ds[i]
		k := core.FuncName(d.Fn) + ":" + d.Field
		if per[k] == nil {
			per[k] = &agg{}
			keys = append(keys, k)
		}
		per[k].n++
		if !d.OK && per[k].bad == nil {
			per[k].bad = d
		}
		c.Funcs[core.FuncName(d.Fn)] = true
	}
	c.Sites += len(ds)
	for _, k := range keys {
		a := per[k]
		key := "optional-element-presence:" + k
		if a.bad == nil {
			c.Ok(rule, key, "-", fmt.Sprintf("%d dereference(s) of the optional element, each behind its != nil test", a.n))
			continue
		}
		if why, ok := frozen[k]; ok {
			c.Ok(rule, key, c.Pos(a.bad.In), "frozen exception: "+why)
			continue
		}
		c.Viol(rule, key, c.Pos(a.bad.In), fmt.Sprintf("%s dereferences the optional element %s of a decoded message without having found it present (%s): %s", core.FuncName(a.bad.Fn), a.bad.Field, a.bad.Why, consequence))
	}
	c.Floor(rule, "dereferences of optional elements of decoded messages", len(ds), floor)
}

// callerGated: the optional element is reached from a parameter of fn (param.a.b.F), fn
// does not test it itself, but every call site of fn (static callers and interface
// invokes, test files excluded) is reachable only on the edge asserting
// `<argument>.a.b.F != nil` in its caller — or, recursively (depth), in that caller's
// callers when the argument is again rooted in a parameter.
func callerGated(p *core.Prog, fn *ssa.Function, load ssa.Value, depth int) (string, bool) {
	root, path := core.FieldPath(load)
	par, ok := root.(*ssa.Parameter)
	if !ok || par.Parent() != fn || len(path) == 0 {
		return "", false
	}
	idx := -1
	for i, q := range fn.Params {
		if q == par {
			idx = i
		}
	}
	if idx < 0 {
		return "", false
	}
	sites := p.CallersLoose(fn)
	n := 0
	for _, ci := range sites {
		g := ci.Parent()
		if g == nil {
			continue
		}
		if ps := g.Pos(); ps.IsValid() && strings.HasSuffix(p.Fset.Position(ps).Filename, "_test.go") {
			continue
		}
		n++
		recv, args := core.CallArgs(ci.Common())
		all := args
		if fn.Signature.Recv() != nil {
			all = append([]ssa.Value{recv}, args...)
		}
		if idx >= len(all) || all[idx] == nil {
			return "; a call site passes no such argument: " + p.Pos(ci.Pos()), false
		}
		aroot, apath := core.FieldPath(all[idx])
		full := append(append([]string{}, apath...), path...)
		a := &core.Atom{Name: strings.Join(full, ".") + "!=nil", Match: func(cond ssa.Value) (int, int) {
			op, x, y, ok := core.Cmp(cond)
			if !ok || (op != token.EQL && op != token.NEQ) {
				return 0, 0
			}
			if core.IsNilConst(x) {
				x, y = y, x
			}
			if !core.IsNilConst(y) {
				return 0, 0
			}
			r2, p2 := core.FieldPath(x)
			if len(p2) != len(full) || !(r2 == aroot || core.Same(r2, aroot)) {
				return 0, 0
			}
			for i := range p2 {
				if p2[i] != full[i] {
					return 0, 0
				}
			}
			return core.Iff(op == token.NEQ)
		}}
		top := core.RootOf(g)
		if top == nil {
			top = g
		}
		gr := core.GateDeep(top, []ssa.Instruction{ci.(ssa.Instruction)}, pos(a))
		if gr.OK && gr.PassEdges > 0 {
			continue
		}
		if depth > 0 {
			if ar, isPar := aroot.(*ssa.Parameter); isPar && ar.Parent() == g {
				// synthesize: the same question one level up, for a load rooted at g's parameter
				if why, ok := callerGatedPath(p, g, ar, full, depth-1); ok {
					continue
				} else {
					return why, false
				}
			}
		}
		return "; and the call site " + p.Pos(ci.Pos()) + " in " + core.FuncName(g) + " is not behind " + a.Name, false
	}
	if n == 0 {
		return "; no caller inside the repository establishes it", false
	}
	return "", true
}

// callerGatedPath is callerGated for a (parameter, field path) pair instead of a load.
func callerGatedPath(p *core.Prog, fn *ssa.Function, par *ssa.Parameter, path []string, depth int) (string, bool) {
	idx := -1
	for i, q := range fn.Params {
		if q == par {
			idx = i
		}
	}
	if idx < 0 {
		return "", false
	}
	n := 0
	for _, ci := range p.CallersLoose(fn) {
		g := ci.Parent()
		if g == nil {
			continue
		}
		if ps := g.Pos(); ps.IsValid() && strings.HasSuffix(p.Fset.Position(ps).Filename, "_test.go") {
			continue
		}
		n++
		recv, args := core.CallArgs(ci.Common())
		all := args
		if fn.Signature.Recv() != nil {
			all = append([]ssa.Value{recv}, args...)
		}
		if idx >= len(all) || all[idx] == nil {
			return "; a call site passes no such argument: " + p.Pos(ci.Pos()), false
		}
		aroot, apath := core.FieldPath(all[idx])
		full := append(append([]string{}, apath...), path...)
		a := &core.Atom{Name: strings.Join(full, ".") + "!=nil", Match: func(cond ssa.Value) (int, int) {
			op, x, y, ok := core.Cmp(cond)
			if !ok || (op != token.EQL && op != token.NEQ) {
				return 0, 0
			}
			if core.IsNilConst(x) {
				x, y = y, x
			}
			if !core.IsNilConst(y) {
				return 0, 0
			}
			r2, p2 := core.FieldPath(x)
			if len(p2) != len(full) || !(r2 == aroot || core.Same(r2, aroot)) {
				return 0, 0
			}
			for i := range p2 {
				if p2[i] != full[i] {
					return 0, 0
				}
			}
			return core.Iff(op == token.NEQ)
		}}
		top := core.RootOf(g)
		if top == nil {
			top = g
		}
		gr := core.GateDeep(top, []ssa.Instruction{ci.(ssa.Instruction)}, pos(a))
		if gr.OK && gr.PassEdges > 0 {
			continue
		}
		if depth > 0 {
			if ar, isPar := aroot.(*ssa.Parameter); isPar && ar.Parent() == g {
				if why, ok := callerGatedPath(p, g, ar, full, depth-1); ok {
					continue
				} else {
					return why, false
				}
			}
		}
		return "; and the call site " + p.Pos(ci.Pos()) + " in " + core.FuncName(g) + " is not behind " + a.Name, false
	}
	if n == 0 {
		return "; no caller inside the repository establishes it", false
	}
	return "", true
}
