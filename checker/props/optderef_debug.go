package props

import (
	"strings"
	"fmt"

	"ndndcheck/core"
)

// DumpOptDerefs lists the optional-element dereferences of the given packages (maintenance aid).
func DumpOptDerefs(p *core.Prog, pkgs []string) {
	c := core.NewCtx(p, "x", "quick")
	for _, d := range optionalDerefs(p, pkgs) {
		st := "ok "
		if !d.OK {
			st = "BAD"
		}
		fmt.Printf("%s %s %s %s %s\n", st, core.FuncName(d.Fn), d.Field, c.Pos(d.In), d.Why)
	}
}

// DumpExplore: exploratory run of the generic round-4 rules over other packages (maintenance aid).
func DumpExplore(p *core.Prog) {
	for _, pk := range []string{"dv/dv", "dv/table", "dv/nfdc", "std/sync", "std/engine/basic", "std/engine/face", "fw/mgmt", "fw/fw", "fw/table", "fw/face", "std/security", "std/schema", "std/schema/rdr", "std/schema/svs", "std/utils", "std/ndn/spec_2022", "tools/dvc", "tools/nfdc"} {
		c := core.NewCtx(p, "x", "quick")
		c15Aliasing(c, core.ModPath+"/"+pk)
		for _, o := range c.Obls {
			if o.Status != core.OK {
				fmt.Println("ALIAS", pk, o.Key, o.Pos, o.Detail[:min(len(o.Detail), 260)])
			}
		}
	}
	for pk := range p.Pkgs {
		if !strings.HasPrefix(pk, core.ModPath) {
			continue
		}
		for _, fn := range p.FuncsIn(pk) {
			if strings.HasSuffix(p.File(fn.Pos()), "_test.go") || strings.HasSuffix(p.File(fn.Pos()), "zz_generated.go") {
				continue
			}
			c := core.NewCtx(p, "x", "quick")
			if n, b := durationScalings(c, fn); n > 0 {
				fmt.Println("DURSCALE", core.FuncName(fn), n, b)
			}
		}
	}
	for pk := range p.Pkgs {
		c := core.NewCtx(p, "x", "quick")
		fieldWiseCopies(c, pk)
		for _, o := range c.Obls {
			fmt.Println("FIELDCOPY", pk, o.Status, o.Key, o.Pos, o.Detail[:min(len(o.Detail), 200)])
		}
	}
	for _, set := range [][]string{{"std/engine/basic", "std/object", "std/sync"}, {"std/schema", "std/schema/rdr", "std/schema/svs", "std/engine/basic"}} {
		edges := core.LockOrder(p, set)
		fmt.Println("LOCKORDER", set, len(edges), "edges")
		for _, cy := range core.LockCycles(edges) {
			fmt.Println("  CYCLE", cy[0].From, "->", cy[0].To, "at", p.Pos(cy[0].At.Pos()), "via", cy[0].Via, "| back at", p.Pos(cy[1].At.Pos()), "via", cy[1].Via)
		}
	}
}

// DumpHashTables lists the maps keyed by a name's hash (maintenance).
func DumpHashTables(p *core.Prog) {
	for _, t := range hashKeyedNameTables(p, []string{"dv/table", "dv/dv", "fw/table", "fw/mgmt", "fw/fw", "std/sync", "std/engine/basic", "std/object"}) {
		fmt.Printf("%-70s sites=%d lookups=%d confirmed=%d %s\n", t.ID, t.Sites, t.Lookups, t.Confirmed, t.Pos)
	}
}
