package props

import (
	"fmt"

	"ndndcheck/core"
)

// DumpOptDerefs lists the optional-element dereferences of the given packages (maintenance aid).
func DumpOptDerefs(p *core.Prog, pkgs []string) {
	c := core.NewCtx(p, "x", "quick")
	for _, d := range optionalDerefs(p, pkgs) {
		st := "ok "
		if !d.OK {
			st = "BAD"
		}
		fmt.Printf("%s %s %s %s %s\n", st, core.FuncName(d.Fn), d.Field, c.Pos(d.In), d.Why)
	}
}
