package face

import (
	"bytes"
	"encoding/binary"
	"runtime"
	"testing"

	"github.com/named-data/ndnd/fw/defn"
	"github.com/named-data/ndnd/fw/dispatch"
	"github.com/named-data/ndnd/fw/fw"
)

// firstFragmentFrame builds the smallest NDNLPv2 frame that opens a reassembly:
// LpPacket{Sequence=seq, FragIndex=0, FragCount=fragCount, Fragment=<1 byte>}.
func firstFragmentFrame(seq uint32, fragCount uint16) []byte {
	body := []byte{0x51, 0x04, 0, 0, 0, 0} // Sequence
	binary.BigEndian.PutUint32(body[2:], seq)
	body = append(body, 0x52, 0x01, 0x00)                                // FragIndex = 0
	body = append(body, 0x53, 0x02, byte(fragCount>>8), byte(fragCount)) // FragCount
	body = append(body, 0x50, 0x01, 0xAA)                                // Fragment (one byte)
	return append([]byte{0x64, byte(len(body))}, body...)
}

// A peer sends 18-byte frames, each the first fragment of a message that announces
// FragCount=8800. Receiving such a frame must not allocate (nor keep) memory out of
// proportion to the 18 bytes received.
func TestC04ReassemblyAllocationIsProportionalToFrame(t *testing.T) {
	faceQueueSize = 16
	l := MakeNDNLPLinkService(MakeNullTransport(), MakeNDNLPLinkServiceOptions())

	// warm up (logger, maps) with a frame that is dropped
	l.handleIncomingFrame([]byte{0x64, 0x00})

	frame := firstFragmentFrame(100000, 8800)
	var before, after runtime.MemStats

	// (1) one frame
	runtime.GC()
	runtime.ReadMemStats(&before)
	l.handleIncomingFrame(frame)
	runtime.ReadMemStats(&after)
	perFrame := after.TotalAlloc - before.TotalAlloc
	limit := uint64(64*len(frame) + 16*1024)
	t.Logf("one %d-byte frame: %d bytes allocated", len(frame), perFrame)
	if perFrame > limit {
		t.Errorf("receiving one %d-byte frame (first fragment, FragCount=8800) allocated %d bytes, "+
			"more than %d (%dx the frame): out of proportion to the input",
			len(frame), perFrame, limit, perFrame/uint64(len(frame)))
	}

	// (2) what the face keeps after maxPartialMessages such frames
	l = MakeNDNLPLinkService(MakeNullTransport(), MakeNDNLPLinkServiceOptions())
	runtime.GC()
	runtime.ReadMemStats(&before)
	total := 0
	for i := 0; i < maxPartialMessages; i++ {
		f := firstFragmentFrame(uint32(100000*(i+1)), 8800)
		total += len(f)
		l.handleIncomingFrame(f)
	}
	runtime.GC()
	runtime.ReadMemStats(&after)
	kept := int64(after.HeapAlloc) - int64(before.HeapAlloc)
	keptLimit := int64(64*total + maxPartialMessages*16*1024)
	t.Logf("%d frames, %d bytes in total: %d bytes kept by the face", maxPartialMessages, total, kept)
	if len(l.partialMessageStore) != maxPartialMessages {
		t.Fatalf("expected %d partial messages, have %d", maxPartialMessages, len(l.partialMessageStore))
	}
	if kept > keptLimit {
		t.Errorf("after %d bytes of input the face keeps %d bytes (more than %d): out of proportion to the input",
			total, kept, keptLimit)
	}
	runtime.KeepAlive(l)
}

type c04RecordingThread struct{ interests []*defn.Pkt }

func (c *c04RecordingThread) String() string            { return "c04RecordingThread" }
func (c *c04RecordingThread) QueueData(*defn.Pkt)       {}
func (c *c04RecordingThread) QueueInterest(p *defn.Pkt) { c.interests = append(c.interests, p) }
func (c *c04RecordingThread) GetNumPitEntries() int     { return 0 }
func (c *c04RecordingThread) GetNumCsEntries() int      { return 0 }

// Companion check (passes before and after a repair): a message whose three fragments
// arrive out of order is still reassembled and dispatched.
func TestC04ReassemblyStillDeliversMessage(t *testing.T) {
	faceQueueSize = 16
	thread := &c04RecordingThread{}
	fw.Threads = make([]*fw.Thread, 1)
	dispatch.InitializeFWThreads([]dispatch.FWThread{thread})
	defer func() {
		fw.Threads = nil
		dispatch.InitializeFWThreads(nil)
	}()
	l := MakeNDNLPLinkService(MakeNullTransport(), MakeNDNLPLinkServiceOptions())

	// Interest /a with Nonce
	interest := []byte{0x05, 0x0b, 0x07, 0x03, 0x08, 0x01, 'a', 0x0a, 0x04, 1, 2, 3, 4}
	parts := [][]byte{interest[:4], interest[4:9], interest[9:]}
	for _, idx := range []int{2, 0, 1} {
		body := []byte{0x51, 0x01, byte(40 + idx), 0x52, 0x01, byte(idx), 0x53, 0x01, 0x03}
		body = append(body, 0x50, byte(len(parts[idx])))
		body = append(body, parts[idx]...)
		l.handleIncomingFrame(append([]byte{0x64, byte(len(body))}, body...))
	}
	if len(thread.interests) != 1 {
		t.Fatalf("expected the reassembled Interest to be dispatched once, got %d", len(thread.interests))
	}
	if !bytes.Equal(thread.interests[0].Raw, interest) {
		t.Errorf("reassembled packet is %x, want %x", thread.interests[0].Raw, interest)
	}
	if len(l.partialMessageStore) != 0 {
		t.Errorf("the completed message is still in the partial message store")
	}
}
