package face

// Demonstration for property C10, clause "A packet that fits is sent as one frame".
//
// sendPacket decides by an upper bound of the header overhead (every length and number at
// its longest, plus Sequence/FragIndex/FragCount, which a single frame does not carry)
// whether a packet needs fragmentation. A packet that fits into the MTU together with
// the headers it actually gets is therefore split into two frames, and on a link without
// fragmentation (TCP, Unix, WebSocket, internal faces) it is dropped.

import (
	"bytes"
	"testing"

	defn "github.com/named-data/ndnd/fw/defn"
	"github.com/named-data/ndnd/fw/dispatch"
	"github.com/named-data/ndnd/fw/fw"
	enc "github.com/named-data/ndnd/std/encoding"
	spec "github.com/named-data/ndnd/std/ndn/spec_2022"
)

// c10f1Transport is an in-memory transport that records the frames handed to it.
type c10f1Transport struct {
	transportBase
	frames [][]byte
}

func newC10f1Transport(mtu int) *c10f1Transport {
	t := &c10f1Transport{}
	t.makeTransportBase(defn.MakeNullFaceURI(), defn.MakeNullFaceURI(),
		PersistencyPermanent, defn.NonLocal, defn.PointToPoint, mtu)
	t.running.Store(true)
	return t
}
func (t *c10f1Transport) String() string                  { return "c10f1Transport" }
func (t *c10f1Transport) SetPersistency(Persistency) bool { return true }
func (t *c10f1Transport) GetSendQueueSize() uint64        { return 0 }
func (t *c10f1Transport) runReceive()                     {}
func (t *c10f1Transport) Close()                          {}
func (t *c10f1Transport) sendFrame(frame []byte) {
	t.frames = append(t.frames, append([]byte{}, frame...))
}

// c10f1Thread is a forwarding thread that records what the link service dispatches.
type c10f1Thread struct{ pkts []*defn.Pkt }

func (r *c10f1Thread) String() string            { return "c10f1Thread" }
func (r *c10f1Thread) QueueData(p *defn.Pkt)     { r.pkts = append(r.pkts, p) }
func (r *c10f1Thread) QueueInterest(p *defn.Pkt) { r.pkts = append(r.pkts, p) }
func (r *c10f1Thread) GetNumPitEntries() int     { return 0 }
func (r *c10f1Thread) GetNumCsEntries() int      { return 0 }

func c10f1TL(typ int, length int) []byte {
	buf := make([]byte, 18)
	n := enc.TLNum(typ).EncodeInto(buf)
	n += enc.TLNum(length).EncodeInto(buf[n:])
	return buf[:n]
}

// c10f1Data builds a well-formed Data packet of exactly size bytes.
func c10f1Data(t *testing.T, size int) []byte {
	for nameLen := 1; nameLen <= 4; nameLen++ {
		for contentLen := size - 10 - nameLen; contentLen >= 0 && contentLen > size-30; contentLen-- {
			inner := []byte{0x07, byte(2 + nameLen), 0x08, byte(nameLen)}
			inner = append(inner, bytes.Repeat([]byte{'a'}, nameLen)...)
			inner = append(inner, c10f1TL(0x15, contentLen)...)
			for i := 0; i < contentLen; i++ {
				inner = append(inner, byte(i*7+size))
			}
			inner = append(inner, 0x16, 0x03, 0x1b, 0x01, 0x00, 0x17, 0x00)
			pkt := append(c10f1TL(0x06, len(inner)), inner...)
			if len(pkt) == size {
				return pkt
			}
		}
	}
	t.Fatalf("cannot build a Data packet of %d bytes", size)
	return nil
}

// c10f1OneFrame is the LpPacket that carries the whole packet with the given headers.
func c10f1OneFrame(raw []byte, token []byte, inFace *uint64, mark *uint64) []byte {
	lp := &spec.LpPacket{Fragment: enc.Wire{raw}, IncomingFaceId: inFace, CongestionMark: mark}
	if len(token) > 0 {
		lp.PitToken = token
	}
	pkt := &spec.Packet{LpPacket: lp}
	encoder := spec.PacketEncoder{}
	encoder.Init(pkt)
	return encoder.Encode(pkt).Join()
}

func TestC10PacketThatFitsIsSentAsOneFrame(t *testing.T) {
	rec := &c10f1Thread{}
	fw.Threads = make([]*fw.Thread, 1)
	dispatch.InitializeFWThreads([]dispatch.FWThread{rec})

	u64 := func(v uint64) *uint64 { return &v }
	token := []byte{0, 0, 1, 2, 3, 4} // a PIT token of this forwarder (thread 0)

	cases := []struct {
		name          string
		mtu           int
		fragmentation bool
		inFaceInd     bool
		inFace        *uint64
		mark          *uint64
		token         []byte
		size          int
	}{
		// 1470 + LpPacket/Fragment headers (8) + PIT token (8) = 1486 <= 1500
		{"udp face, MTU 1500, Data of 1470 bytes with PIT token", 1500, true, false, u64(300), nil, token, 1470},
		// 8770 + 8 + 8 = 8786 <= 8800
		{"udp face, default MTU 8800, Data of 8770 bytes with PIT token", 8800, true, false, u64(300), nil, token, 8770},
		// 120 + 4 = 124 <= 128
		{"MTU 128, Data of 120 bytes, no headers", 128, true, false, nil, nil, nil, 120},
		// 1460 + 8 + 8 + congestion mark (5) = 1481 <= 1500
		{"MTU 1500, Data of 1460 bytes, token and congestion mark", 1500, true, false, u64(300), u64(1), token, 1460},
		// no fragmentation (TCP/Unix face with local fields): 8785 + 8 + IncomingFaceId (6) = 8799 <= 8800
		{"stream face without fragmentation, MTU 8800, local fields, Data of 8785 bytes", 8800, false, true, u64(300), nil, nil, 8785},
		// no fragmentation: 122 + 4 = 126 <= 128
		{"no fragmentation, MTU 128, Data of 122 bytes", 128, false, false, nil, nil, nil, 122},
	}

	for _, c := range cases {
		raw := c10f1Data(t, c.size)
		l3, _, err := spec.ReadPacket(enc.NewBufferReader(raw))
		if err != nil {
			t.Fatalf("%s: test packet does not parse: %v", c.name, err)
		}

		options := MakeNDNLPLinkServiceOptions()
		options.IsFragmentationEnabled = c.fragmentation
		options.IsIncomingFaceIndicationEnabled = c.inFaceInd
		out := newC10f1Transport(c.mtu)
		sender := MakeNDNLPLinkService(out, options)
		receiver := MakeNDNLPLinkService(newC10f1Transport(c.mtu), MakeNDNLPLinkServiceOptions())

		var attachedInFace *uint64
		if c.inFaceInd {
			attachedInFace = c.inFace
		}
		want := c10f1OneFrame(raw, c.token, attachedInFace, c.mark)
		if len(want) > c.mtu {
			t.Fatalf("%s: bad test case, the packet does not fit (%d > %d)", c.name, len(want), c.mtu)
		}

		sendPacket(sender, dispatch.OutPkt{
			Pkt:      &defn.Pkt{Raw: raw, L3: l3, CongestionMark: c.mark},
			PitToken: c.token,
			InFace:   c.inFace,
		})

		for i, frame := range out.frames {
			if len(frame) > c.mtu {
				t.Errorf("%s: frame %d has %d bytes, MTU is %d", c.name, i, len(frame), c.mtu)
			}
		}
		if len(out.frames) != 1 {
			t.Errorf("%s: the packet (%d bytes) fits into one frame of %d bytes within the MTU of %d, "+
				"so it must be sent as one frame; the link service emitted %d frames",
				c.name, c.size, len(want), c.mtu, len(out.frames))
		} else if !bytes.Equal(out.frames[0], want) {
			t.Errorf("%s: the one frame is not the LpPacket carrying the packet and its headers", c.name)
		}

		// Whatever was emitted, the peer must deliver the packet once
		rec.pkts = nil
		for _, frame := range out.frames {
			receiver.handleIncomingFrame(frame)
		}
		if len(rec.pkts) != 1 {
			t.Errorf("%s: the peer delivered %d packets, want 1", c.name, len(rec.pkts))
		} else if !bytes.Equal(rec.pkts[0].Raw, raw) || !bytes.Equal(rec.pkts[0].PitToken, c.token) ||
			(c.mark == nil) != (rec.pkts[0].CongestionMark == nil) {
			t.Errorf("%s: the peer delivered other bytes, token or congestion mark than were sent", c.name)
		}
	}
}

// Every packet size around the boundary, MTU 1500 and 256 (1-byte vs 3-byte lengths): one
// frame exactly when the packet fits, and never a frame above the MTU.
func TestC10OneFrameBoundarySweep(t *testing.T) {
	rec := &c10f1Thread{}
	fw.Threads = make([]*fw.Thread, 1)
	dispatch.InitializeFWThreads([]dispatch.FWThread{rec})

	token := []byte{0, 0, 1, 2, 3, 4}
	for _, mtu := range []int{128, 256, 262, 1500, 8800} {
		split := 0
		for size := mtu - 60; size <= mtu; size++ {
			if size == 255 || size == 256 {
				continue // no TLV element has this size (1-byte lengths end at 254, 3-byte lengths start at 257)
			}
			raw := c10f1Data(t, size)
			l3, _, _ := spec.ReadPacket(enc.NewBufferReader(raw))
			out := newC10f1Transport(mtu)
			sender := MakeNDNLPLinkService(out, MakeNDNLPLinkServiceOptions())
			sendPacket(sender, dispatch.OutPkt{Pkt: &defn.Pkt{Raw: raw, L3: l3}, PitToken: token})

			fits := len(c10f1OneFrame(raw, token, nil, nil)) <= mtu
			for _, frame := range out.frames {
				if len(frame) > mtu {
					t.Errorf("MTU %d, packet of %d bytes: frame of %d bytes", mtu, size, len(frame))
				}
			}
			if fits && len(out.frames) != 1 {
				split++
			}
			if !fits && len(out.frames) < 2 {
				t.Errorf("MTU %d, packet of %d bytes does not fit but %d frames were sent", mtu, size, len(out.frames))
			}
		}
		if split > 0 {
			t.Errorf("MTU %d: %d packet sizes that fit into one frame were sent as several frames", mtu, split)
		}
	}
}
