package face

// Demonstration for property C10 (quantified over schedules and configurations): run with -race.
//
// faces/update (fw/mgmt/face.go) calls SetMTU and SetOptions of a face from the management
// goroutine while the face's own send goroutine (runSend -> sendPacket) and receive goroutine
// (handleIncomingFrame) are running. SetOptions assigns the options struct field by field and
// then rebuilds l.headerOverhead in steps (8, +10, +8, +12); sendPacket reads l.options,
// l.headerOverhead and the transport's mtu with no synchronisation at all. A packet that is
// sized while headerOverhead holds an intermediate value (8 instead of 26 or 38) is cut into
// fragments whose frames are up to 30 bytes longer than the MTU: the transport drops them and
// the packet is lost.

import (
	"sync"
	"testing"

	defn "github.com/named-data/ndnd/fw/defn"
	"github.com/named-data/ndnd/fw/dispatch"
	enc "github.com/named-data/ndnd/std/encoding"
	spec "github.com/named-data/ndnd/std/ndn/spec_2022"
)

type c10f3Transport struct {
	transportBase
	mutex  sync.Mutex
	frames []int
}

func newC10f3Transport(mtu int) *c10f3Transport {
	t := &c10f3Transport{}
	t.makeTransportBase(defn.MakeNullFaceURI(), defn.MakeNullFaceURI(),
		PersistencyPermanent, defn.NonLocal, defn.PointToPoint, mtu)
	t.running.Store(true)
	return t
}
func (t *c10f3Transport) String() string                  { return "c10f3Transport" }
func (t *c10f3Transport) SetPersistency(Persistency) bool { return true }
func (t *c10f3Transport) GetSendQueueSize() uint64        { return 0 }
func (t *c10f3Transport) runReceive()                     {}
func (t *c10f3Transport) Close()                          {}
func (t *c10f3Transport) sendFrame(frame []byte) {
	t.mutex.Lock()
	t.frames = append(t.frames, len(frame))
	t.mutex.Unlock()
}

// c10f3Data builds a well-formed Data packet /a with contentLen bytes of content.
func c10f3Data(contentLen int) []byte {
	tl := func(typ int, length int) []byte {
		buf := make([]byte, 18)
		n := enc.TLNum(typ).EncodeInto(buf)
		n += enc.TLNum(length).EncodeInto(buf[n:])
		return buf[:n]
	}
	inner := []byte{0x07, 0x03, 0x08, 0x01, 'a'}
	inner = append(inner, tl(0x15, contentLen)...)
	inner = append(inner, make([]byte, contentLen)...)
	inner = append(inner, 0x16, 0x03, 0x1b, 0x01, 0x00, 0x17, 0x00)
	return append(tl(0x06, len(inner)), inner...)
}

func TestC10FaceUpdateWhileSending(t *testing.T) {
	const mtu = 1500
	raw := c10f3Data(4000)
	l3, _, err := spec.ReadPacket(enc.NewBufferReader(raw))
	if err != nil {
		t.Fatalf("test packet does not parse: %v", err)
	}
	inFace := uint64(300)

	transport := newC10f3Transport(mtu)
	link := MakeNDNLPLinkService(transport, MakeNDNLPLinkServiceOptions())

	// The send goroutine of the face (what runSend does with the packets of its queue)
	queue := make(chan dispatch.OutPkt, 8)
	sendDone := make(chan struct{})
	go func() {
		defer close(sendDone)
		for out := range queue {
			sendPacket(link, out)
		}
	}()

	// The management goroutine: faces/update with Mask=LocalFields, Flags toggling, and the
	// same Mtu again and again (FaceModule.update: SetMTU, then SetOptions)
	updateDone := make(chan struct{})
	go func() {
		defer close(updateDone)
		for i := 0; i < 500; i++ {
			options := link.Options()
			enabled := i%2 == 0
			options.IsConsumerControlledForwardingEnabled = enabled
			options.IsIncomingFaceIndicationEnabled = enabled
			options.IsLocalCachePolicyEnabled = enabled
			link.SetMTU(mtu)
			link.SetOptions(options)
		}
	}()

	for i := 0; i < 500; i++ {
		queue <- dispatch.OutPkt{
			Pkt:      &defn.Pkt{Raw: raw, L3: l3},
			PitToken: []byte{0, 0, 1, 2, 3, 4},
			InFace:   &inFace,
		}
	}
	close(queue)
	<-sendDone
	<-updateDone

	// The MTU never changed: whichever options a packet was sent with, every frame must fit
	for _, size := range transport.frames {
		if size > mtu {
			t.Fatalf("a frame of %d bytes was emitted on a face whose MTU is %d "+
				"(packet sized with a half-updated header overhead)", size, mtu)
		}
	}
	// Without such a lucky hit the defect is visible to the race detector only:
	// "WARNING: DATA RACE" between SetOptions/SetMTU and sendPacket fails this test under -race.
}
