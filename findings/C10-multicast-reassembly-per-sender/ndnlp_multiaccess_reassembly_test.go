package face

// Demonstration for property C10: "a peer link service that receives those frames - in
// any order and interleaved with the fragments of other packets - delivers exactly the
// original packet bytes, once".
//
// Every NDNLPLinkService numbers its fragments with its own counter, which starts at 0
// (nextSequence). The link service of a multicast UDP face (link type MultiAccess) receives
// the frames of every forwarder of the group through one socket, but reassemblePacket keys
// its partial message store by the base sequence number alone. The fragments of two
// packets that two neighbours send at about the same time therefore land in the same
// slots: the receiver forwards a packet that nobody sent (the beginning of one, the end
// of the other) and never delivers either original.
//
// The test drives the real MulticastUDPTransport.runReceive over a loopback UDP socket
// (datagrams from two different source addresses), the way the frames of two neighbours
// arrive on the multicast socket.
//
// Run with: go test -vet=off -count=1 -run TestC10MultiAccessReassemblyPerSender ./fw/face/

import (
	"bytes"
	"net"
	"sync"
	"testing"
	"time"

	defn "github.com/named-data/ndnd/fw/defn"
	"github.com/named-data/ndnd/fw/dispatch"
	"github.com/named-data/ndnd/fw/fw"
	enc "github.com/named-data/ndnd/std/encoding"
	spec "github.com/named-data/ndnd/std/ndn/spec_2022"
)

type c10f3Transport struct {
	transportBase
	frames [][]byte
}

func (t *c10f3Transport) String() string                    { return "c10f3Transport" }
func (t *c10f3Transport) SetPersistency(p Persistency) bool { return true }
func (t *c10f3Transport) GetSendQueueSize() uint64          { return 0 }
func (t *c10f3Transport) runReceive()                       {}
func (t *c10f3Transport) Close()                            {}
func (t *c10f3Transport) sendFrame(frame []byte) {
	t.frames = append(t.frames, append([]byte{}, frame...))
}

type c10f3Thread struct {
	mutex sync.Mutex
	data  [][]byte
	done  chan struct{} // closed when the marker Interest arrives
}

func (r *c10f3Thread) String() string { return "c10f3Thread" }
func (r *c10f3Thread) QueueData(p *defn.Pkt) {
	r.mutex.Lock()
	defer r.mutex.Unlock()
	r.data = append(r.data, append([]byte{}, p.Raw...))
}
func (r *c10f3Thread) QueueInterest(p *defn.Pkt) { close(r.done) }
func (r *c10f3Thread) GetNumPitEntries() int     { return 0 }
func (r *c10f3Thread) GetNumCsEntries() int      { return 0 }

// c10f3Data returns the wire of a Data packet /<name> of 2000 bytes whose content is filled with fill.
func c10f3Data(name byte, fill byte) []byte {
	const size = 2000
	nameTlv := []byte{0x07, 0x03, 0x08, 0x01, name}
	contentLen := size - 4 - len(nameTlv) - 4
	wire := []byte{0x06, 0xfd, byte((size - 4) >> 8), byte((size - 4) & 0xff)}
	wire = append(wire, nameTlv...)
	wire = append(wire, 0x15, 0xfd, byte(contentLen>>8), byte(contentLen&0xff))
	wire = append(wire, bytes.Repeat([]byte{fill}, contentLen)...)
	return wire
}

// c10f3Fragments returns the frames a forwarder that has just started emits for wire on a link with an MTU of 1500.
func c10f3Fragments(t *testing.T, wire []byte) [][]byte {
	tr := &c10f3Transport{}
	tr.makeTransportBase(defn.MakeNullFaceURI(), defn.MakeNullFaceURI(), PersistencyPermanent,
		defn.NonLocal, defn.MultiAccess, 1500)
	tr.running.Store(true)
	sender := MakeNDNLPLinkService(tr, MakeNDNLPLinkServiceOptions())
	l3, _, err := spec.ReadPacket(enc.NewBufferReader(wire))
	if err != nil {
		t.Fatal(err)
	}
	sendPacket(sender, dispatch.OutPkt{Pkt: &defn.Pkt{Raw: wire, L3: l3}})
	if len(tr.frames) != 2 {
		t.Fatalf("expected 2 fragments, got %d", len(tr.frames))
	}
	return tr.frames
}

func TestC10MultiAccessReassemblyPerSender(t *testing.T) {
	rec := &c10f3Thread{done: make(chan struct{})}
	dispatch.InitializeFWThreads([]dispatch.FWThread{rec})
	fw.Threads = make([]*fw.Thread, 1)

	// The receiving multicast face. The group socket is replaced by a loopback socket:
	// runReceive only reads datagrams from it.
	recvConn, err := net.ListenUDP("udp4", &net.UDPAddr{IP: net.IPv4(127, 0, 0, 1)})
	if err != nil {
		t.Skip("no loopback UDP socket: ", err)
	}
	tr := &MulticastUDPTransport{recvConn: recvConn}
	tr.makeTransportBase(defn.DecodeURIString("udp4://224.0.23.170:56363"), defn.DecodeURIString("udp4://127.0.0.1:56363"),
		PersistencyPermanent, defn.NonLocal, defn.MultiAccess, defn.MaxNDNPacketSize)
	tr.running.Store(true)
	MakeNDNLPLinkService(tr, MakeNDNLPLinkServiceOptions())
	go tr.runReceive()
	defer tr.Close()

	// Two neighbours, each with its own link service (sequence numbers from 0) and address
	wireA := c10f3Data('A', 0xAA)
	wireB := c10f3Data('B', 0xBB)
	framesA := c10f3Fragments(t, wireA)
	framesB := c10f3Fragments(t, wireB)
	dial := func() *net.UDPConn {
		conn, err := net.DialUDP("udp4", &net.UDPAddr{IP: net.IPv4(127, 0, 0, 1)}, recvConn.LocalAddr().(*net.UDPAddr))
		if err != nil {
			t.Fatal(err)
		}
		return conn
	}
	neighbourA, neighbourB := dial(), dial()
	defer neighbourA.Close()
	defer neighbourB.Close()

	// Both send their packet at the same time: A0 B0 A1 B1, then a bare Interest that marks the end
	marker := []byte{0x05, 0x0b, 0x07, 0x03, 0x08, 0x01, 'M', 0x0a, 0x04, 1, 2, 3, 4}
	for _, send := range []struct {
		conn  *net.UDPConn
		frame []byte
	}{{neighbourA, framesA[0]}, {neighbourB, framesB[0]}, {neighbourA, framesA[1]}, {neighbourB, framesB[1]}, {neighbourA, marker}} {
		if _, err := send.conn.Write(send.frame); err != nil {
			t.Fatal(err)
		}
	}
	select {
	case <-rec.done:
	case <-time.After(5 * time.Second):
		t.Fatal("the marker Interest sent behind the fragments did not arrive")
	}

	rec.mutex.Lock()
	defer rec.mutex.Unlock()
	gotA, gotB := 0, 0
	for _, raw := range rec.data {
		switch {
		case bytes.Equal(raw, wireA):
			gotA++
		case bytes.Equal(raw, wireB):
			gotB++
		default:
			t.Errorf("the face delivered a Data packet of %d bytes that neither neighbour sent "+
				"(begins like the packet of %q, ends with content byte %#x): only original packet bytes may be delivered",
				len(raw), raw[8], raw[len(raw)-1])
		}
	}
	if gotA != 1 || gotB != 1 {
		t.Errorf("packet of neighbour A delivered %d times, packet of neighbour B delivered %d times; "+
			"each must be delivered exactly once although their fragments arrive interleaved", gotA, gotB)
	}
}
