package face

import (
	"net"
	"sync"
	"testing"
	"time"

	defn "github.com/named-data/ndnd/fw/defn"
)

// faces/update (management goroutine) changes a face's persistency through
// transport.SetPersistency while the face table's expiration handler (its own goroutine)
// reads it in transportBase.ExpirationPeriod to decide whether the face is torn down.
// Nothing orders the two. Run with -race: the pair is reported and the test fails.
func TestC16ExpirationHandlerVersusFacesUpdatePersistency(t *testing.T) {
	udpLifetime = 600 * time.Second
	peer, err := net.ListenUDP("udp4", &net.UDPAddr{IP: net.IPv4(127, 0, 0, 1)})
	if err != nil {
		t.Skip("no loopback UDP: ", err)
	}
	defer peer.Close()
	remote := defn.MakeUDPFaceURI(4, "127.0.0.1", uint16(peer.LocalAddr().(*net.UDPAddr).Port))
	transport, err := MakeUnicastUDPTransport(remote, nil, PersistencyOnDemand)
	if err != nil {
		t.Fatal("cannot create the UDP transport: ", err)
	}
	defer transport.Close()

	const rounds = 2000
	var wg sync.WaitGroup
	wg.Add(2)
	go func() { // what FaceModule.update does for FacePersistency
		defer wg.Done()
		for i := 0; i < rounds; i++ {
			if i%2 == 0 {
				transport.SetPersistency(PersistencyPersistent)
			} else {
				transport.SetPersistency(PersistencyOnDemand)
			}
		}
	}()
	go func() { // the body of Table.ExpirationHandler for this face
		defer wg.Done()
		for i := 0; i < rounds; i++ {
			_ = transport.ExpirationPeriod()
		}
	}()
	wg.Wait()
	t.Log("expectation: faces/update and the expiration handler may run concurrently without a data race")
}
