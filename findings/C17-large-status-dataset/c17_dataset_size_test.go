package mgmt

// Demonstration for property C17: "each status dataset lists exactly the current table contents".
//
// A forwarder is assembled from the real parts (one forwarding thread, the management thread with
// its internal face, and a second internal face that plays a local application). The application
// registers 300 routes with rib/register and then asks for the fib/list, rib/list and faces/list
// datasets the way a client does: an Interest for the dataset prefix with CanBePrefix, followed by
// Interests for the segments up to the FinalBlockId.

import (
	"fmt"
	"math/rand"
	"testing"
	"time"

	"github.com/named-data/ndnd/fw/core"
	"github.com/named-data/ndnd/fw/dispatch"
	"github.com/named-data/ndnd/fw/face"
	"github.com/named-data/ndnd/fw/fw"
	"github.com/named-data/ndnd/fw/table"
	enc "github.com/named-data/ndnd/std/encoding"
	"github.com/named-data/ndnd/std/ndn"
	mgmt "github.com/named-data/ndnd/std/ndn/mgmt_2022"
	spec "github.com/named-data/ndnd/std/ndn/spec_2022"
	"github.com/named-data/ndnd/std/utils"
)

type c17DatasetHarness struct {
	t     *testing.T
	app   *face.InternalTransport
	appID uint64
	rx    chan *spec.Data
}

func c17DatasetStart(t *testing.T) *c17DatasetHarness {
	cfg := core.DefaultConfig()
	cfg.Core.LogLevel = "ERROR"
	cfg.Fw.Threads = 1
	cfg.Tables.Rib.ReadvertiseNlsr = false
	core.LoadConfig(cfg, "")
	core.InitializeLogger("")
	face.Configure()
	fw.Configure()
	table.Configure()
	table.CreateFIBTable("nametree")
	Configure()

	th := fw.NewThread(0)
	fw.Threads = []*fw.Thread{th}
	dispatch.InitializeFWThreads([]dispatch.FWThread{th})
	go th.Run()

	go MakeMgmtThread().Run()
	pfx, _ := enc.NameFromStr("/localhost/nfd")
	for deadline := time.Now().Add(5 * time.Second); len(table.FibStrategyTable.FindNextHopsEnc(pfx)) == 0; {
		if time.Now().After(deadline) {
			t.Fatal("management thread did not start")
		}
		time.Sleep(time.Millisecond)
	}

	h := &c17DatasetHarness{t: t, rx: make(chan *spec.Data, 64)}
	appLink, app := face.RegisterInternalTransport() // a local face, like a Unix socket application
	h.app, h.appID = app, appLink.FaceID()
	go func() {
		for {
			frag, _, _ := app.Receive()
			if frag == nil {
				return
			}
			if pkt, _, err := spec.ReadPacket(enc.NewWireReader(frag)); err == nil && pkt.Data != nil {
				h.rx <- pkt.Data
			}
		}
	}()
	return h
}

// express sends one Interest from the application face; nil means that no Data came back.
func (h *c17DatasetHarness) express(name enc.Name, canBePrefix bool) *spec.Data {
	lifetime := 2 * time.Second
	interest, err := spec.Spec{}.MakeInterest(name, &ndn.InterestConfig{
		CanBePrefix: canBePrefix, MustBeFresh: true, Nonce: utils.IdPtr(rand.Uint64()), Lifetime: &lifetime,
	}, nil, nil)
	if err != nil {
		h.t.Fatal(err)
	}
	h.app.Send(interest.Wire, nil, nil)
	select {
	case d := <-h.rx:
		return d
	case <-time.After(2 * time.Second):
		return nil
	}
}

func (h *c17DatasetHarness) command(module, verb string, args *mgmt.ControlArgs) uint64 {
	name, _ := enc.NameFromStr("/localhost/nfd/" + module + "/" + verb)
	params := &mgmt.ControlParameters{Val: args}
	name = append(name, enc.NewBytesComponent(enc.TypeGenericNameComponent, params.Encode().Join()))
	d := h.express(name, false)
	if d == nil {
		h.t.Fatalf("%s/%s was not answered", module, verb)
	}
	r, err := mgmt.ParseControlResponse(enc.NewWireReader(d.Content()), true)
	if err != nil || r.Val == nil {
		h.t.Fatalf("%s/%s: malformed ControlResponse: %v", module, verb, err)
	}
	return r.Val.StatusCode
}

// fetchDataset retrieves a status dataset segment by segment and returns its content.
func (h *c17DatasetHarness) fetchDataset(prefix string) []byte {
	name, _ := enc.NameFromStr(prefix)
	first := h.express(name, true)
	if first == nil {
		h.t.Errorf("C17 violated: the %s dataset Interest was not answered at all, "+
			"so the dataset does not list the current table contents", prefix)
		return nil
	}
	dataName := first.Name()
	if len(dataName) != len(name)+2 || dataName[len(dataName)-1].Typ != enc.TypeSegmentNameComponent {
		h.t.Fatalf("%s: unexpected dataset Data name %s", prefix, dataName)
	}
	content := first.Content().Join()
	final := first.FinalBlockID()
	if final == nil {
		h.t.Fatalf("%s: first segment has no FinalBlockId", prefix)
	}
	last, _, err := enc.ParseNat(final.Val)
	if err != nil {
		h.t.Fatal(err)
	}
	for seg := uint64(1); seg <= uint64(last); seg++ {
		segName := append(dataName[:len(dataName)-1].Clone(), enc.NewSegmentComponent(seg))
		d := h.express(segName, false)
		if d == nil {
			h.t.Errorf("C17 violated: segment %d of %d of the %s dataset (%s) was not answered", seg, last, prefix, segName)
			return nil
		}
		content = append(content, d.Content().Join()...)
	}
	return content
}

func TestC17LargeStatusDatasetsAreAnswered(t *testing.T) {
	h := c17DatasetStart(t)

	// 300 routes of an ordinary size: the FIB and RIB datasets are about 14 kB and 19 kB
	const nRoutes = 300
	want := map[string]bool{}
	for i := 0; i < nRoutes; i++ {
		name, _ := enc.NameFromStr(fmt.Sprintf("/example/site-%03d/department/routable-prefix", i))
		if code := h.command("rib", "register", &mgmt.ControlArgs{Name: name}); code != 200 {
			t.Fatalf("rib/register %s: status %d", name, code)
		}
		want[name.String()] = true
	}

	// fib/list
	if content := h.fetchDataset("/localhost/nfd/fib/list"); content != nil {
		status, err := mgmt.ParseFibStatus(enc.NewBufferReader(content), true)
		if err != nil {
			t.Fatalf("fib/list dataset does not parse: %v", err)
		}
		got := map[string]bool{}
		for _, e := range status.Entries {
			got[e.Name.String()] = true
		}
		inTable := table.FibStrategyTable.GetAllFIBEntries()
		if len(status.Entries) != len(inTable) {
			t.Errorf("C17 violated: fib/list lists %d entries, the FIB has %d", len(status.Entries), len(inTable))
		}
		for n := range want {
			if !got[n] {
				t.Errorf("C17 violated: fib/list does not list the FIB entry %s", n)
				break
			}
		}
	}

	// rib/list
	if content := h.fetchDataset("/localhost/nfd/rib/list"); content != nil {
		status, err := mgmt.ParseRibStatus(enc.NewBufferReader(content), true)
		if err != nil {
			t.Fatalf("rib/list dataset does not parse: %v", err)
		}
		if len(status.Entries) != len(table.Rib.GetAllEntries()) {
			t.Errorf("C17 violated: rib/list lists %d entries, the RIB has %d",
				len(status.Entries), len(table.Rib.GetAllEntries()))
		}
	}

	// faces/list: 200 more faces (about 80 bytes each in the dataset)
	for i := 0; i < 200; i++ {
		face.RegisterInternalTransport()
	}
	if content := h.fetchDataset("/localhost/nfd/faces/list"); content != nil {
		status, err := mgmt.ParseFaceStatusMsg(enc.NewBufferReader(content), true)
		if err != nil {
			t.Fatalf("faces/list dataset does not parse: %v", err)
		}
		if len(status.Vals) != len(face.FaceTable.GetAll()) {
			t.Errorf("C17 violated: faces/list lists %d faces, the face table has %d",
				len(status.Vals), len(face.FaceTable.GetAll()))
		}
	}
}
