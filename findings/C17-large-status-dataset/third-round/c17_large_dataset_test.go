package mgmt

// Demonstration for property C17: a status dataset that does not fit into one Data packet
// is not published at all - rib/list, fib/list (and faces/list, ...) go unanswered as soon
// as the table is big enough.
//
// Copy into fw/mgmt/ and run:
//   go test -vet=off -count=1 -run TestC17LargeStatusDataset ./fw/mgmt/

import (
	"fmt"
	"sync"
	"testing"
	"time"

	"github.com/named-data/ndnd/fw/core"
	"github.com/named-data/ndnd/fw/defn"
	"github.com/named-data/ndnd/fw/dispatch"
	"github.com/named-data/ndnd/fw/face"
	"github.com/named-data/ndnd/fw/fw"
	"github.com/named-data/ndnd/fw/table"
	enc "github.com/named-data/ndnd/std/encoding"
	"github.com/named-data/ndnd/std/ndn"
	mgmt "github.com/named-data/ndnd/std/ndn/mgmt_2022"
	spec "github.com/named-data/ndnd/std/ndn/spec_2022"
	"github.com/named-data/ndnd/std/utils"
)

// dsFw stands in for the forwarding threads: it receives what management sends
// on the internal face.
type dsFw struct {
	data chan *defn.Pkt
}

func (p *dsFw) String() string              { return "dsFw" }
func (p *dsFw) QueueData(pkt *defn.Pkt)     { p.data <- pkt }
func (p *dsFw) QueueInterest(pkt *defn.Pkt) {}
func (p *dsFw) GetNumPitEntries() int       { return 0 }
func (p *dsFw) GetNumCsEntries() int        { return 0 }

type dsEnv struct {
	fwd     *dsFw
	link    face.LinkService // the internal face of the management thread
	null    face.LinkService
	crashed chan any
	nonce   uint64
}

var dsOnce sync.Once
var dsShared *dsEnv

// dsSetup starts the real management thread (Thread.Run) on its real internal face.
func dsSetup(t *testing.T) *dsEnv {
	dsOnce.Do(func() {
		cfg := core.DefaultConfig()
		cfg.Fw.Threads = 1
		cfg.Tables.Rib.ReadvertiseNlsr = false
		cfg.Core.LogLevel = "ERROR"
		core.LoadConfig(cfg, "")
		face.Configure()
		fw.Configure()
		table.Configure()
		Configure()
		table.CreateFIBTable("nametree")
		fw.Threads = []*fw.Thread{fw.NewThread(0)}
		env := &dsEnv{fwd: &dsFw{data: make(chan *defn.Pkt, 64)}, crashed: make(chan any, 1)}
		dispatch.InitializeFWThreads([]dispatch.FWThread{env.fwd})
		null := face.MakeNullLinkService(face.MakeNullTransport())
		null.Run(nil)
		env.null = null
		m := MakeMgmtThread()
		go func() {
			defer func() {
				if r := recover(); r != nil {
					env.crashed <- r
				}
			}()
			m.Run()
		}()
		deadline := time.Now().Add(5 * time.Second)
		for env.link == nil && time.Now().Before(deadline) {
			for _, f := range face.FaceTable.GetAll() {
				if f.RemoteURI().Scheme() == "internal" {
					env.link = f
				}
			}
			time.Sleep(time.Millisecond)
		}
		mgmtPrefix, _ := enc.NameFromStr("/localhost/nfd")
		for time.Now().Before(deadline) && len(table.FibStrategyTable.FindNextHopsEnc(mgmtPrefix)) == 0 {
			time.Sleep(time.Millisecond)
		}
		dsShared = env
	})
	if dsShared.link == nil {
		t.Fatal("the management thread did not register its internal face")
	}
	return dsShared
}

// send delivers an Interest to management through the internal face, as the forwarding
// thread does for an Interest that arrived on inFace, and returns the Data sent in reply.
func (e *dsEnv) send(t *testing.T, name enc.Name, inFace uint64) *defn.Pkt {
	e.nonce++
	interest, err := spec.Spec{}.MakeInterest(name, &ndn.InterestConfig{
		MustBeFresh: true, CanBePrefix: true, Nonce: utils.IdPtr(e.nonce),
	}, nil, nil)
	if err != nil {
		t.Fatal(err)
	}
	raw := interest.Wire.Join()
	l3, _, err := spec.ReadPacket(enc.NewBufferReader(raw))
	if err != nil {
		t.Fatal(err)
	}
	e.link.SendPacket(dispatch.OutPkt{
		Pkt:      &defn.Pkt{Name: name, L3: l3, Raw: raw},
		PitToken: []byte{0, 0, 0, 0, 0, 1},
		InFace:   utils.IdPtr(inFace),
	})
	select {
	case pkt := <-e.fwd.data:
		return pkt
	case r := <-e.crashed:
		t.Fatalf("management thread crashed: %v", r)
	case <-time.After(2 * time.Second):
	}
	return nil
}

func (e *dsEnv) cmd(t *testing.T, moduleVerb string, args *mgmt.ControlArgs, inFace uint64) *mgmt.ControlResponseVal {
	name, _ := enc.NameFromStr("/localhost/nfd/" + moduleVerb)
	params := &mgmt.ControlParameters{Val: args}
	name = append(name, enc.NewBytesComponent(enc.TypeGenericNameComponent, params.Encode().Join()))
	pkt := e.send(t, name, inFace)
	if pkt == nil {
		t.Fatalf("no response to %s", moduleVerb)
	}
	res, err := mgmt.ParseControlResponse(enc.NewWireReader(pkt.L3.Data.Content()), true)
	if err != nil || res.Val == nil {
		t.Fatalf("undecodable response to %s: %v", moduleVerb, err)
	}
	return res.Val
}

// fetchDataset retrieves a status dataset the way a client does: an Interest for the dataset
// prefix (CanBePrefix, MustBeFresh) brings the first segment, named <prefix>/<version>/<segment 0>;
// its FinalBlockId tells the last segment; the other segments are requested by their exact names.
// It returns nil if the first Interest is not answered.
func (e *dsEnv) fetchDataset(t *testing.T, prefix string) enc.Wire {
	prefixName, _ := enc.NameFromStr(prefix)
	first := e.send(t, prefixName, e.link.FaceID())
	if first == nil {
		return nil
	}
	if len(first.Raw) > defn.MaxNDNPacketSize {
		t.Fatalf("%s: the Data of the first segment has %d octets, more than a packet can have (%d)",
			prefix, len(first.Raw), defn.MaxNDNPacketSize)
	}
	data := first.L3.Data
	name := data.NameV
	if len(name) != len(prefixName)+2 || !prefixName.IsPrefix(name) ||
		name[len(name)-2].Typ != enc.TypeVersionNameComponent || name[len(name)-1].Typ != enc.TypeSegmentNameComponent {
		t.Fatalf("%s: unexpected dataset name %s", prefix, name)
	}
	final := data.FinalBlockID()
	if final == nil || final.Typ != enc.TypeSegmentNameComponent {
		t.Fatalf("%s: dataset segment without FinalBlockId", prefix)
	}
	last, _, err := enc.ParseNat(final.Val)
	if err != nil {
		t.Fatal(err)
	}
	content := enc.Wire{data.Content().Join()}
	for seg := uint64(1); seg <= uint64(last); seg++ {
		segName := append(name[:len(name)-1:len(name)-1], enc.NewSegmentComponent(seg))
		pkt := e.send(t, segName, e.link.FaceID())
		if pkt == nil {
			t.Fatalf("%s: segment %d of %d (%s) announced by FinalBlockId is not served", prefix, seg, last, segName)
		}
		if !pkt.L3.Data.NameV.Equal(segName) {
			t.Fatalf("%s: asked for %s, got %s", prefix, segName, pkt.L3.Data.NameV)
		}
		if len(pkt.Raw) > defn.MaxNDNPacketSize {
			t.Fatalf("%s: the Data of segment %d has %d octets, more than a packet can have (%d)",
				prefix, seg, len(pkt.Raw), defn.MaxNDNPacketSize)
		}
		content = append(content, pkt.L3.Data.Content().Join())
	}
	return content
}

func TestC17LargeStatusDataset(t *testing.T) {
	e := dsSetup(t)
	requester := e.link.FaceID()
	nextHop := e.null.FaceID()

	// With a few routes the datasets are served
	small, _ := enc.NameFromStr("/c17/small")
	if res := e.cmd(t, "rib/register", &mgmt.ControlArgs{Name: small, FaceId: utils.IdPtr(nextHop)}, requester); res.StatusCode != 200 {
		t.Fatalf("rib/register: status %d %s", res.StatusCode, res.StatusText)
	}
	if e.fetchDataset(t, "/localhost/nfd/rib/list") == nil || e.fetchDataset(t, "/localhost/nfd/fib/list") == nil {
		t.Fatal("rib/list or fib/list is not served although the tables are small")
	}

	// A forwarder with some hundred routes, e.g. a hub of a testbed
	const nRoutes = 600
	want := map[string]bool{"/c17/small": true, "/localhost/nfd": true}
	for i := 0; i < nRoutes; i++ {
		prefix, _ := enc.NameFromStr(fmt.Sprintf("/c17/site-%04d/application/prefix", i))
		res := e.cmd(t, "rib/register", &mgmt.ControlArgs{Name: prefix, FaceId: utils.IdPtr(nextHop), Cost: utils.IdPtr(uint64(i))}, requester)
		if res.StatusCode != 200 {
			t.Fatalf("rib/register %s: status %d %s", prefix, res.StatusCode, res.StatusText)
		}
		want[prefix.String()] = true
	}
	if n := len(table.Rib.GetAllEntries()); n != len(want) {
		t.Fatalf("the RIB has %d entries, want %d", n, len(want))
	}

	// rib/list must list exactly these entries
	ribWire := e.fetchDataset(t, "/localhost/nfd/rib/list")
	if ribWire == nil {
		t.Errorf("rib/list is not answered at all once the RIB has %d entries (every one of them registered with status 200): "+
			"the dataset does not list the current table contents", len(want))
	} else {
		status, err := mgmt.ParseRibStatus(enc.NewWireReader(ribWire), true)
		if err != nil {
			t.Fatalf("undecodable rib/list dataset: %v", err)
		}
		got := map[string]bool{}
		for _, entry := range status.Entries {
			got[entry.Name.String()] = true
		}
		if len(got) != len(want) {
			t.Errorf("rib/list reports %d entries, the RIB has %d", len(got), len(want))
		}
		for name := range want {
			if !got[name] {
				t.Errorf("rib/list does not report the RIB entry %s", name)
				break
			}
		}
	}

	// ... and so must fib/list
	fibWire := e.fetchDataset(t, "/localhost/nfd/fib/list")
	if fibWire == nil {
		t.Errorf("fib/list is not answered at all once the FIB has %d entries: the dataset does not list the current table contents",
			len(table.FibStrategyTable.GetAllFIBEntries()))
	} else {
		status, err := mgmt.ParseFibStatus(enc.NewWireReader(fibWire), true)
		if err != nil {
			t.Fatalf("undecodable fib/list dataset: %v", err)
		}
		got := map[string]bool{}
		for _, entry := range status.Entries {
			got[entry.Name.String()] = true
		}
		if len(got) != len(want) {
			t.Errorf("fib/list reports %d entries, the FIB has %d", len(got), len(want))
		}
		for name := range want {
			if !got[name] {
				t.Errorf("fib/list does not report the FIB entry %s", name)
				break
			}
		}
	}

	// The small datasets are still served while the large ones are around
	if e.fetchDataset(t, "/localhost/nfd/strategy-choice/list") == nil {
		t.Error("strategy-choice/list is not served")
	}
}
