package mgmt

// Demonstration for property C17: "An accepted RIB, FIB ... command has exactly the table effect
// its parameters describe - the route, next hop ... is added, updated or removed for the named
// prefix and face".
//
// A forwarder is assembled from the real parts (one forwarding thread, the management thread with
// its internal face, and further internal faces that play local applications); every command is a
// real command Interest sent from the application face, and the tables are observed through the
// fib/list dataset.

import (
	"math/rand"
	"sync"
	"testing"
	"time"

	"github.com/named-data/ndnd/fw/core"
	"github.com/named-data/ndnd/fw/dispatch"
	"github.com/named-data/ndnd/fw/face"
	"github.com/named-data/ndnd/fw/fw"
	"github.com/named-data/ndnd/fw/table"
	enc "github.com/named-data/ndnd/std/encoding"
	"github.com/named-data/ndnd/std/ndn"
	mgmt "github.com/named-data/ndnd/std/ndn/mgmt_2022"
	spec "github.com/named-data/ndnd/std/ndn/spec_2022"
	"github.com/named-data/ndnd/std/utils"
)

type c17RibFibHarness struct {
	app    *face.InternalTransport
	appID  uint64 // the requesting face
	otherA uint64 // two more local faces
	otherB uint64
	rx     chan *spec.Data
}

var c17RibFibOnce sync.Once
var c17RibFib *c17RibFibHarness

func c17RibFibStart(t *testing.T) *c17RibFibHarness {
	c17RibFibOnce.Do(func() {
		cfg := core.DefaultConfig()
		cfg.Core.LogLevel = "ERROR"
		cfg.Fw.Threads = 1
		cfg.Tables.Rib.ReadvertiseNlsr = false
		// every dataset Interest must reach management (datasets stay fresh for a second)
		cfg.Tables.ContentStore.Admit = false
		cfg.Tables.ContentStore.Serve = false
		core.LoadConfig(cfg, "")
		core.InitializeLogger("")
		face.Configure()
		fw.Configure()
		table.Configure()
		table.CreateFIBTable("nametree")
		Configure()

		th := fw.NewThread(0)
		fw.Threads = []*fw.Thread{th}
		dispatch.InitializeFWThreads([]dispatch.FWThread{th})
		go th.Run()

		go MakeMgmtThread().Run()
		pfx, _ := enc.NameFromStr("/localhost/nfd")
		for deadline := time.Now().Add(5 * time.Second); len(table.FibStrategyTable.FindNextHopsEnc(pfx)) == 0; {
			if time.Now().After(deadline) {
				t.Fatal("management thread did not start")
			}
			time.Sleep(time.Millisecond)
		}

		h := &c17RibFibHarness{rx: make(chan *spec.Data, 64)}
		appLink, app := face.RegisterInternalTransport() // a local face, like a Unix socket application
		h.app, h.appID = app, appLink.FaceID()
		a, _ := face.RegisterInternalTransport()
		b, _ := face.RegisterInternalTransport()
		h.otherA, h.otherB = a.FaceID(), b.FaceID()
		go func() {
			for {
				frag, _, _ := app.Receive()
				if frag == nil {
					return
				}
				if pkt, _, err := spec.ReadPacket(enc.NewWireReader(frag)); err == nil && pkt.Data != nil {
					h.rx <- pkt.Data
				}
			}
		}()
		c17RibFib = h
	})
	if c17RibFib == nil {
		t.Fatal("forwarder did not start")
	}
	return c17RibFib
}

// express sends one Interest from the application face; nil means that no Data came back.
func (h *c17RibFibHarness) express(t *testing.T, name enc.Name, canBePrefix bool) *spec.Data {
	lifetime := time.Second
	interest, err := spec.Spec{}.MakeInterest(name, &ndn.InterestConfig{
		CanBePrefix: canBePrefix, MustBeFresh: true, Nonce: utils.IdPtr(rand.Uint64()), Lifetime: &lifetime,
	}, nil, nil)
	if err != nil {
		t.Fatal(err)
	}
	h.app.Send(interest.Wire, nil, nil)
	select {
	case d := <-h.rx:
		return d
	case <-time.After(1500 * time.Millisecond):
		return nil
	}
}

// command returns the status code of the ControlResponse, or 0 if the command was not answered.
func (h *c17RibFibHarness) command(t *testing.T, module, verb string, args *mgmt.ControlArgs) uint64 {
	name, _ := enc.NameFromStr("/localhost/nfd/" + module + "/" + verb)
	params := &mgmt.ControlParameters{Val: args}
	name = append(name, enc.NewBytesComponent(enc.TypeGenericNameComponent, params.Encode().Join()))
	d := h.express(t, name, false)
	if d == nil {
		return 0
	}
	r, err := mgmt.ParseControlResponse(enc.NewWireReader(d.Content()), true)
	if err != nil || r.Val == nil {
		t.Fatalf("%s/%s: malformed ControlResponse: %v", module, verb, err)
	}
	return r.Val.StatusCode
}

// fibNexthops returns FaceId -> Cost of the fib/list record for the prefix (nil if there is none).
func (h *c17RibFibHarness) fibNexthops(t *testing.T, prefix enc.Name) map[uint64]uint64 {
	name, _ := enc.NameFromStr("/localhost/nfd/fib/list")
	d := h.express(t, name, true)
	if d == nil {
		t.Fatal("fib/list was not answered")
	}
	status, err := mgmt.ParseFibStatus(enc.NewWireReader(d.Content()), true)
	if err != nil {
		t.Fatal(err)
	}
	for _, e := range status.Entries {
		if e.Name.Equal(prefix) {
			ret := map[uint64]uint64{}
			for _, nh := range e.NextHopRecords {
				ret[nh.FaceId] = nh.Cost
			}
			return ret
		}
	}
	return nil
}

// A next hop added with fib/add-nexthop (status 200) must stay until a command removes it.
func TestC17RibCommandsKeepFibNexthopsOfOtherFaces(t *testing.T) {
	h := c17RibFibStart(t)
	prefix, _ := enc.NameFromStr("/example/video")

	if code := h.command(t, "fib", "add-nexthop", &mgmt.ControlArgs{
		Name: prefix, FaceId: utils.IdPtr(h.otherA), Cost: utils.IdPtr(uint64(7))}); code != 200 {
		t.Fatalf("fib/add-nexthop: status %d", code)
	}
	if nh := h.fibNexthops(t, prefix); len(nh) != 1 || nh[h.otherA] != 7 {
		t.Fatalf("fib/add-nexthop had no effect: %v", nh)
	}

	// rib/register for the same prefix and ANOTHER face (the requesting face, by default)
	if code := h.command(t, "rib", "register", &mgmt.ControlArgs{Name: prefix}); code != 200 {
		t.Fatalf("rib/register: status %d", code)
	}
	nh := h.fibNexthops(t, prefix)
	if cost, ok := nh[h.appID]; !ok || cost != 0 {
		t.Errorf("rib/register did not install the next hop FaceId=%d cost 0: %v", h.appID, nh)
	}
	if cost, ok := nh[h.otherA]; !ok || cost != 7 {
		t.Errorf("C17 violated: rib/register Name=%s FaceId=%d (status 200) also removed the next hop "+
			"FaceId=%d cost 7 that fib/add-nexthop had added (status 200); fib/list now has %v",
			prefix, h.appID, h.otherA, nh)
	}

	// Put it back; then unregister a route that does not exist (status 200, nothing to remove)
	h.command(t, "fib", "add-nexthop", &mgmt.ControlArgs{Name: prefix, FaceId: utils.IdPtr(h.otherA), Cost: utils.IdPtr(uint64(7))})
	if code := h.command(t, "rib", "unregister", &mgmt.ControlArgs{Name: prefix, FaceId: utils.IdPtr(h.otherB)}); code != 200 {
		t.Fatalf("rib/unregister: status %d", code)
	}
	nh = h.fibNexthops(t, prefix)
	if cost, ok := nh[h.otherA]; !ok || cost != 7 {
		t.Errorf("C17 violated: rib/unregister Name=%s FaceId=%d, which names a route that does not exist, "+
			"removed the next hop FaceId=%d cost 7 of another face; fib/list now has %v", prefix, h.otherB, h.otherA, nh)
	}
}

// The same on the management prefix itself: the next hop towards the management thread is
// installed directly in the FIB, so a route for /localhost/nfd on any other face disconnects
// management from every local face for good.
func TestC17RibRegisterOnManagementPrefixKeepsManagementReachable(t *testing.T) {
	h := c17RibFibStart(t)
	prefix, _ := enc.NameFromStr("/localhost/nfd")
	before := table.FibStrategyTable.FindNextHopsEnc(prefix)
	if len(before) != 1 {
		t.Fatalf("unexpected FIB entry for %s: %d next hops", prefix, len(before))
	}
	mgmtFace := before[0].Nexthop

	// a more expensive route on another local face: the management face (cost 0) stays the best one
	args := &mgmt.ControlArgs{Name: prefix, FaceId: utils.IdPtr(h.otherB), Cost: utils.IdPtr(uint64(10))}
	if code := h.command(t, "rib", "register", args); code != 200 {
		t.Fatalf("rib/register: status %d", code)
	}
	found := false
	for _, nh := range table.FibStrategyTable.FindNextHopsEnc(prefix) {
		found = found || nh.Nexthop == mgmtFace
	}
	if !found {
		t.Errorf("C17 violated: rib/register Name=%s FaceId=%d Cost=10 (status 200) removed the next hop "+
			"FaceId=%d towards the management thread from the FIB", prefix, h.otherB, mgmtFace)
	}
	if code := h.command(t, "rib", "unregister", args); code != 200 {
		t.Errorf("C17 violated: after that rib/register, the next command (rib/unregister of the same route) "+
			"got status %d (0 = never answered): management is unreachable", code)
	}
}
