package table

// Demonstration for property C18: the distance-vector RIB identifies a destination by the
// 64-bit value of Name.Hash() alone. Two different destinations with the same hash value
// (the hash is the unkeyed xxHash64: a second pre-image is computed directly, see
// sameHashDestinations) share one RIB entry: the second destination is never advertised
// and never gets a route, however long the routers run.

import (
	"encoding/binary"
	"math/bits"
	"testing"

	"github.com/named-data/ndnd/dv/config"
	enc "github.com/named-data/ndnd/std/encoding"
)

func sameHashDestinations() (enc.Name, enc.Name) {
	const p1 = uint64(11400714785074694791)
	const p2 = uint64(14029467366897019727)
	inv := p2
	for i := 0; i < 6; i++ {
		inv *= 2 - p2*inv
	}
	round0 := func(x uint64) uint64 { return bits.RotateLeft64(x*p2, 31) * p1 }
	mk := func(x1, x2 uint64) enc.Name {
		val := append([]byte{}, []byte("........-rtr-one-........-router-........-name-..")[:48]...)
		binary.LittleEndian.PutUint64(val[0:8], x1)
		binary.LittleEndian.PutUint64(val[32:40], x2)
		return enc.Name{enc.NewBytesComponent(enc.TypeGenericNameComponent, val)}
	}
	x1a, x2a := uint64(0x4141414141414141), uint64(0x4242424242424242)
	x1b := uint64(0x4343434343434343)
	x2b := x2a + (round0(x1a)-round0(x1b))*inv
	return mk(x1a, x2a), mk(x1b, x2b)
}

func TestRibDistinctDestinationsWithEqualHash(t *testing.T) {
	a, b := sameHashDestinations()
	if a.Equal(b) || a.Hash() != b.Hash() {
		t.Fatalf("test setup: want two different names with equal hash")
	}
	cfg := config.DefaultConfig()
	cfg.Network = "/net"
	cfg.Router = "/net/me"
	if err := cfg.Parse(); err != nil {
		t.Fatal(err)
	}
	n1, _ := enc.NameFromStr("/net/n1")
	n2, _ := enc.NameFromStr("/net/n2")
	rib := NewRib(cfg)
	rib.Set(a, n1, 1) // destination A is one hop away through n1
	rib.Set(b, n2, 5) // destination B is five hops away through n2
	if !rib.Has(a) || !rib.Has(b) {
		t.Fatalf("both destinations must be reachable")
	}
	got := map[string]bool{}
	for _, e := range rib.Entries() {
		got[e.Name().String()] = true
	}
	if len(got) != 2 || !got[a.String()] || !got[b.String()] {
		t.Errorf("two different destinations were set, the RIB holds %d: %v (destination B was merged into the entry of A: it is never advertised and no route to it is ever computed)", len(got), got)
	}
}
