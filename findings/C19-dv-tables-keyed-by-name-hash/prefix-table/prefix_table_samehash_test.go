package table

// Demonstration for property C19 (prefix logs replicate):
// the prefix table identifies a prefix by the 64-bit value of Name.Hash() alone.
// Two different prefixes with the same hash value (cheap to construct, the hash
// is the unkeyed xxHash64) share one slot, so the announced set and the set a
// peer reconstructs from the published log lose prefixes that are announced.

import (
	"encoding/binary"
	"math/bits"
	"sort"
	"testing"

	"github.com/named-data/ndnd/dv/config"
	"github.com/named-data/ndnd/dv/tlv"
	enc "github.com/named-data/ndnd/std/encoding"
	"github.com/named-data/ndnd/std/ndn"
	spec "github.com/named-data/ndnd/std/ndn/spec_2022"
	ndn_sync "github.com/named-data/ndnd/std/sync"
)

// sameHashEngine is the part of an engine the prefix table needs: the packet format.
type sameHashEngine struct{ ndn.Engine }

func (sameHashEngine) Spec() ndn.Spec { return spec.Spec{} }

// sameHashNames returns two different one-component names with equal Name.Hash().
//
// Name.Hash() feeds xxHash64 (seed 0) with, per component, 8 octets type, 8 octets
// length and the value. For a single component with a 48-octet value the input is
// 64 octets = two 32-octet stripes; value[0:8] and value[32:40] are the two inputs
// of the third accumulator (v3, whose initial value is the seed, 0). One round is
//     acc = rotl31(acc + input*P2) * P1
// so after choosing the first input freely the second one can be solved for so
// that the lane ends in the same state: the rest of the computation is identical.
func sameHashNames() (enc.Name, enc.Name) {
	const p1 = uint64(11400714785074694791)
	const p2 = uint64(14029467366897019727)
	inv := p2 // inverse of P2 modulo 2^64 (Newton iteration)
	for i := 0; i < 6; i++ {
		inv *= 2 - p2*inv
	}
	round0 := func(x uint64) uint64 { return bits.RotateLeft64(x*p2, 31) * p1 }

	mk := func(x1, x2 uint64) enc.Name {
		val := []byte("........-app-one-........-prefix-........-data-..")[:48]
		val = append([]byte{}, val...)
		binary.LittleEndian.PutUint64(val[0:8], x1)
		binary.LittleEndian.PutUint64(val[32:40], x2)
		return enc.Name{enc.NewBytesComponent(enc.TypeGenericNameComponent, val)}
	}

	x1a, x2a := uint64(0x4141414141414141), uint64(0x4242424242424242)
	x1b := uint64(0x4343434343434343)
	x2b := x2a + (round0(x1a)-round0(x1b))*inv
	return mk(x1a, x2a), mk(x1b, x2b)
}

func prefixSetOf(r *PrefixTableRouter) []string {
	ret := make([]string, 0)
	for _, e := range r.Prefixes {
		ret = append(ret, e.Name.String())
	}
	sort.Strings(ret)
	return ret
}

func TestPrefixTableDistinctPrefixesWithEqualHash(t *testing.T) {
	pfxA, pfxB := sameHashNames()
	if pfxA.Equal(pfxB) || pfxA.Hash() != pfxB.Hash() {
		t.Fatalf("test setup: want two different names with equal hash, got equal=%v hashes %x %x",
			pfxA.Equal(pfxB), pfxA.Hash(), pfxB.Hash())
	}

	newTable := func(router string) (*PrefixTable, *config.Config) {
		cfg := config.DefaultConfig()
		cfg.Network = "/net"
		cfg.Router = router
		if err := cfg.Parse(); err != nil {
			t.Fatal(err)
		}
		eng := sameHashEngine{}
		svs := ndn_sync.NewSvSync(eng, cfg.PrefixTableSyncPrefix(), func(ndn_sync.SvSyncUpdate) {})
		return NewPrefixTable(cfg, eng, svs), cfg
	}

	// Router /net/x announces two prefixes and withdraws the first one again.
	x, cfgX := newTable("/net/x")
	x.Announce(pfxA)
	x.Announce(pfxB)
	if got := prefixSetOf(x.me); len(got) != 2 {
		t.Errorf("after announcing 2 different prefixes the router's announced set has %d: %v", len(got), got)
	}
	x.Withdraw(pfxA)
	want := []string{pfxB.String()}
	if got := prefixSetOf(x.me); len(got) != 1 || got[0] != want[0] {
		t.Errorf("announce A, announce B, withdraw A: the router's announced set must be {B}, is %v", got)
	}

	// A peer replays the published operation log (sequence numbers 1, 2, 3)
	peer, _ := newTable("/net/peer")
	for seq := uint64(1); seq <= 3; seq++ {
		name := append(cfgX.PrefixTableDataPrefix().Clone(), enc.NewSequenceNumComponent(seq))
		wire := x.repo[name.Hash()]
		if wire == nil {
			t.Fatalf("no log entry %s", name)
		}
		data, _, err := spec.Spec{}.ReadData(enc.NewBufferReader(wire))
		if err != nil {
			t.Fatal(err)
		}
		ops, err := tlv.ParsePrefixOpList(enc.NewWireReader(data.Content()), true)
		if err != nil {
			t.Fatal(err)
		}
		peer.Apply(ops)
	}
	if got := prefixSetOf(peer.GetRouter(cfgX.RouterName())); len(got) != 1 || got[0] != want[0] {
		t.Errorf("log add A, add B, remove A: the set the peer reconstructs for /net/x must be {B}, is %v", got)
	}
}
