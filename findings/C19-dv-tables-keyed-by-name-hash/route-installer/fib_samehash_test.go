package dv

// Demonstration for property C19 (installed routes mirror the tables):
// the route installer (table.Fib, fed by Router.fibUpdate) identifies a prefix by
// the 64-bit value of Name.Hash() alone. Two different prefixes with the same hash
// value (cheap to construct, the hash is the unkeyed xxHash64) share one record of
// installed next hops, so the differ compares the routes of one prefix with the
// routes installed for the other: withdrawn prefixes keep their routes and
// announced prefixes get none.

import (
	"encoding/binary"
	"fmt"
	"math/bits"
	"sort"
	"strings"
	"sync"
	"testing"
	"time"

	"github.com/named-data/ndnd/dv/config"
	"github.com/named-data/ndnd/dv/nfdc"
	"github.com/named-data/ndnd/dv/tlv"
	enc "github.com/named-data/ndnd/std/encoding"
	"github.com/named-data/ndnd/std/ndn"
	mgmt "github.com/named-data/ndnd/std/ndn/mgmt_2022"
	spec "github.com/named-data/ndnd/std/ndn/spec_2022"
)

// fibTwinEngine records the management commands instead of sending them.
type fibTwinEngine struct {
	ndn.Engine
	mutex sync.Mutex
	// reference route table: "name face" -> cost, fed with the rib commands
	routes map[string]uint64
	synced chan struct{}
}

func (e *fibTwinEngine) Spec() ndn.Spec { return spec.Spec{} }

func (e *fibTwinEngine) ExecMgmtCmd(module string, cmd string, args any) error {
	e.mutex.Lock()
	defer e.mutex.Unlock()
	if module == "test-sync" {
		e.synced <- struct{}{}
		return nil
	}
	a := args.(*mgmt.ControlArgs)
	if module != "rib" || a.Name == nil || a.FaceId == nil {
		return nil
	}
	key := fmt.Sprintf("%s face=%d", a.Name, *a.FaceId)
	switch cmd {
	case "register":
		e.routes[key] = *a.Cost
	case "unregister":
		delete(e.routes, key)
	}
	return nil
}

// fibTwinNames returns two different one-component names with equal Name.Hash().
//
// Name.Hash() feeds xxHash64 (seed 0) with, per component, 8 octets type, 8 octets
// length and the value. For a single component with a 48-octet value the input is
// 64 octets = two 32-octet stripes; value[0:8] and value[32:40] are the two inputs
// of the third accumulator (v3, whose initial value is the seed, 0). One round is
//     acc = rotl31(acc + input*P2) * P1
// so after choosing the first input freely the second one can be solved for so
// that the accumulator ends in the same state: everything else is identical.
func fibTwinNames() (enc.Name, enc.Name) {
	const p1 = uint64(11400714785074694791)
	const p2 = uint64(14029467366897019727)
	inv := p2 // inverse of P2 modulo 2^64 (Newton iteration)
	for i := 0; i < 6; i++ {
		inv *= 2 - p2*inv
	}
	round0 := func(x uint64) uint64 { return bits.RotateLeft64(x*p2, 31) * p1 }

	mk := func(x1, x2 uint64) enc.Name {
		val := []byte("........-app-one-........-prefix-........-data-.")
		binary.LittleEndian.PutUint64(val[0:8], x1)
		binary.LittleEndian.PutUint64(val[32:40], x2)
		return enc.Name{enc.NewBytesComponent(enc.TypeGenericNameComponent, val)}
	}

	x1a, x2a := uint64(0x4141414141414141), uint64(0x4242424242424242)
	x1b := uint64(0x4343434343434343)
	x2b := x2a + (round0(x1a)-round0(x1b))*inv
	return mk(x1a, x2a), mk(x1b, x2b)
}

func TestFibDistinctPrefixesWithEqualHash(t *testing.T) {
	pfxA, pfxB := fibTwinNames()
	if pfxA.Equal(pfxB) || pfxA.Hash() != pfxB.Hash() {
		t.Fatalf("test setup: want two different names with equal hash, got equal=%v hashes %x %x",
			pfxA.Equal(pfxB), pfxA.Hash(), pfxB.Hash())
	}

	name := func(s string) enc.Name {
		n, err := enc.NameFromStr(s)
		if err != nil {
			t.Fatal(err)
		}
		return n
	}

	eng := &fibTwinEngine{routes: make(map[string]uint64), synced: make(chan struct{}, 1)}
	cfg := config.DefaultConfig()
	cfg.Network = "/net"
	cfg.Router = "/net/me"
	dv, err := NewRouter(cfg, eng)
	if err != nil {
		t.Fatal(err)
	}
	go dv.nfdc.Start()
	defer dv.nfdc.Stop()

	// Recompute the routes and return the content of the reference route table
	// (only the routes of the two prefixes) once all commands were executed
	routesAfterUpdate := func() []string {
		dv.fibUpdate()
		dv.nfdc.Exec(nfdc.NfdMgmtCmd{Module: "test-sync", Retries: 1})
		select {
		case <-eng.synced:
		case <-time.After(30 * time.Second):
			t.Fatal("management queue was not drained")
		}
		eng.mutex.Lock()
		defer eng.mutex.Unlock()
		ret := make([]string, 0)
		for key, cost := range eng.routes {
			key = strings.Replace(key, pfxA.String(), "A", 1)
			key = strings.Replace(key, pfxB.String(), "B", 1)
			if key[0] == 'A' || key[0] == 'B' {
				ret = append(ret, fmt.Sprintf("%s cost=%d", key, cost))
			}
		}
		sort.Strings(ret)
		return ret
	}
	expect := func(step string, got []string, want ...string) {
		t.Helper()
		if fmt.Sprint(got) != fmt.Sprint(want) {
			t.Errorf("%s: routes registered in the forwarder are %v, the tables prescribe %v", step, got, want)
		}
	}
	announce := func(router enc.Name, prefix enc.Name) {
		dv.pfx.Apply(&tlv.PrefixOpList{
			ExitRouter:   &tlv.Destination{Name: router},
			PrefixOpAdds: []*tlv.PrefixOpAdd{{Name: prefix, Cost: 1}},
		})
	}
	withdraw := func(router enc.Name, prefix enc.Name) {
		dv.pfx.Apply(&tlv.PrefixOpList{
			ExitRouter:      &tlv.Destination{Name: router},
			PrefixOpRemoves: []*tlv.PrefixOpRemove{{Name: prefix}},
		})
	}

	// Two neighbours on faces 11 and 12; router r1 is reached through n1 at cost 2,
	// router r2 through n2 at cost 3.
	n1, n2, r1, r2 := name("/net/n1"), name("/net/n2"), name("/net/r1"), name("/net/r2")
	dv.mutex.Lock()
	dv.rib.Set(cfg.RouterName(), cfg.RouterName(), 0)
	dv.neighbors.Add(n1).RecvPing(11, true)
	dv.neighbors.Add(n2).RecvPing(12, true)
	dv.rib.Set(r1, n1, 2)
	dv.rib.Set(r2, n2, 3)

	// 1. r1 announces A
	announce(r1, pfxA)
	dv.mutex.Unlock()
	expect("r1 announces A", routesAfterUpdate(), "A face=11 cost=2")

	// 2. r1 withdraws A and announces B instead
	dv.mutex.Lock()
	withdraw(r1, pfxA)
	announce(r1, pfxB)
	dv.mutex.Unlock()
	expect("r1 withdraws A and announces B", routesAfterUpdate(), "B face=11 cost=2")

	// 3. r2 announces A
	dv.mutex.Lock()
	announce(r2, pfxA)
	dv.mutex.Unlock()
	expect("r1 announces B, r2 announces A", routesAfterUpdate(), "A face=12 cost=3", "B face=11 cost=2")

	// 4. r1 withdraws B
	dv.mutex.Lock()
	withdraw(r1, pfxB)
	dv.mutex.Unlock()
	expect("r1 withdraws B, r2 still announces A", routesAfterUpdate(), "A face=12 cost=3")
}
