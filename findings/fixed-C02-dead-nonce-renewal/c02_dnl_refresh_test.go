package fw

// Demonstration for property C02: "... an Interest repeating ... a nonce recorded as dead
// ... is not forwarded".
//
// Copy to fw/fw/ and run:
//   go test -vet=off -count=1 -run TestC02DeadNonceRecordedAgainIsForgotten ./fw/fw/

import (
	"encoding/binary"
	"fmt"
	"sync"
	"testing"
	"time"

	"github.com/named-data/ndnd/fw/core"
	"github.com/named-data/ndnd/fw/defn"
	"github.com/named-data/ndnd/fw/dispatch"
	"github.com/named-data/ndnd/fw/table"
	enc "github.com/named-data/ndnd/std/encoding"
	"github.com/named-data/ndnd/std/ndn"
	spec "github.com/named-data/ndnd/std/ndn/spec_2022"
	"github.com/named-data/ndnd/std/security"
	"github.com/named-data/ndnd/std/utils"
)

type dnlSent struct {
	raw      []byte
	pitToken []byte
	interest bool
}

// dnlFace is a recording fake face
type dnlFace struct {
	id   uint64
	mu   sync.Mutex
	sent []dnlSent
}

func (f *dnlFace) String() string          { return fmt.Sprintf("dnlFace-%d", f.id) }
func (f *dnlFace) SetFaceID(id uint64)     { f.id = id }
func (f *dnlFace) FaceID() uint64          { return f.id }
func (f *dnlFace) LocalURI() *defn.URI     { return nil }
func (f *dnlFace) RemoteURI() *defn.URI    { return nil }
func (f *dnlFace) Scope() defn.Scope       { return defn.NonLocal }
func (f *dnlFace) LinkType() defn.LinkType { return defn.PointToPoint }
func (f *dnlFace) MTU() int                { return 8800 }
func (f *dnlFace) State() defn.State       { return defn.Up }
func (f *dnlFace) SendPacket(out dispatch.OutPkt) {
	f.mu.Lock()
	defer f.mu.Unlock()
	f.sent = append(f.sent, dnlSent{
		raw:      append([]byte{}, out.Pkt.Raw...),
		pitToken: append([]byte{}, out.PitToken...),
		interest: out.Pkt.L3.Interest != nil,
	})
}
func (f *dnlFace) interests() []dnlSent {
	f.mu.Lock()
	defer f.mu.Unlock()
	var ret []dnlSent
	for _, s := range f.sent {
		if s.interest {
			ret = append(ret, s)
		}
	}
	return ret
}

func dnlInterest(t *testing.T, name enc.Name, nonce uint64, inFace uint64) *defn.Pkt {
	enci, err := spec.Spec{}.MakeInterest(name, &ndn.InterestConfig{
		MustBeFresh: true, // the Data below is never fresh: the Content Store stays out of the way
		Nonce:       utils.IdPtr(nonce),
		Lifetime:    utils.IdPtr(4 * time.Second),
	}, nil, nil)
	if err != nil {
		t.Fatal(err)
	}
	wire := enci.Wire.Join()
	p, _, err := spec.ReadPacket(enc.NewBufferReader(wire))
	if err != nil {
		t.Fatal(err)
	}
	return &defn.Pkt{Name: p.Interest.NameV, L3: p, Raw: wire, IncomingFaceID: utils.IdPtr(inFace)}
}

func dnlData(t *testing.T, name enc.Name, pitToken []byte, inFace uint64) *defn.Pkt {
	encd, err := spec.Spec{}.MakeData(name, &ndn.DataConfig{}, enc.Wire{[]byte("x")}, security.NewSha256Signer())
	if err != nil {
		t.Fatal(err)
	}
	wire := encd.Wire.Join()
	p, _, err := spec.ReadPacket(enc.NewBufferReader(wire))
	if err != nil {
		t.Fatal(err)
	}
	return &defn.Pkt{Name: p.Data.NameV, L3: p, Raw: wire, PitToken: pitToken, IncomingFaceID: utils.IdPtr(inFace)}
}

func TestC02DeadNonceRecordedAgainIsForgotten(t *testing.T) {
	const dnlLifetime = 400 * time.Millisecond

	cfg := core.DefaultConfig()
	cfg.Fw.Threads = 1
	cfg.Tables.DeadNonceList.Lifetime = int(dnlLifetime / time.Millisecond)
	core.LoadConfig(cfg, "")
	table.Configure()
	Configure()
	table.CreateFIBTable("nametree")
	th := NewThread(0)
	Threads = []*Thread{th}

	const faceA, faceB, faceC = 7001, 7002, 7003
	a, b, c := &dnlFace{id: faceA}, &dnlFace{id: faceB}, &dnlFace{id: faceC}
	for _, f := range []*dnlFace{a, b, c} {
		dispatch.AddFace(f.id, f)
		defer dispatch.RemoveFace(f.id)
	}

	prefix, _ := enc.NameFromStr("/c02/dnl")
	name, _ := enc.NameFromStr("/c02/dnl/object")
	table.FibStrategyTable.InsertNextHopEnc(prefix, faceB, 10)

	const nonce = 0x0badcafe

	// t0: consumer on face A asks; the Interest goes upstream to B
	start := time.Now()
	th.processIncomingInterest(dnlInterest(t, name, nonce, faceA))
	if n := len(b.interests()); n != 1 {
		t.Fatalf("setup: first Interest was sent %d times to the next hop, want 1", n)
	}

	// t0 + a few ms: the consumer retransmits the very same Interest (same nonce). The
	// pipeline records the previous nonce of the in-record as dead: first recording.
	time.Sleep(5 * time.Millisecond)
	th.processIncomingInterest(dnlInterest(t, name, nonce, faceA))
	if !th.deadNonceList.Find(name, nonce) {
		t.Fatalf("setup: the nonce of the retransmitted Interest was not recorded as dead")
	}
	sent := b.interests()
	token := sent[len(sent)-1].pitToken

	// t0 + 300ms: the Data arrives from B. The Interest is satisfied and the nonce of its
	// out-record is recorded as dead - now, i.e. it has to stay dead for the next 400ms.
	time.Sleep(300*time.Millisecond - time.Since(start))
	th.processIncomingData(dnlData(t, name, token, faceB))
	satisfiedAt := time.Now()
	if len(a.sent) == 0 {
		t.Fatalf("setup: the Data did not reach the consumer")
	}
	if binary.BigEndian.Uint16(token) != 0 {
		t.Fatalf("setup: unexpected PIT token %x", token)
	}

	// t0 + 500ms = 200ms after the nonce was recorded as dead (half the lifetime of a
	// record): the forwarding thread serves its tickers, as Thread.Run does ...
	time.Sleep(200*time.Millisecond - time.Since(satisfiedAt))
	th.pitCS.Update()
	th.deadNonceList.RemoveExpiredEntries()
	age := time.Since(satisfiedAt)
	if age >= dnlLifetime {
		t.Skipf("machine too slow (%v elapsed), timing of the demonstration is void", age)
	}

	// ... and a looping copy of the satisfied Interest comes in on another face, C.
	before := len(b.interests())
	outBefore := th.NOutInterests
	th.processIncomingInterest(dnlInterest(t, name, nonce, faceC))

	if got := len(b.interests()) - before; got != 0 || th.NOutInterests != outBefore {
		t.Errorf("an Interest with a nonce recorded as dead %v ago (Dead Nonce List lifetime %v) was forwarded "+
			"to the next hop %d time(s) (NOutInterests %d -> %d); want: dropped, a nonce recorded as dead is not forwarded",
			age.Round(time.Millisecond), dnlLifetime, got, outBefore, th.NOutInterests)
	}
	if !th.deadNonceList.Find(name, nonce) {
		t.Errorf("the nonce recorded as dead %v ago is not in the Dead Nonce List any more (lifetime %v): "+
			"recording it again did not renew the record made %v ago",
			age.Round(time.Millisecond), dnlLifetime, time.Since(start).Round(time.Millisecond))
	}
}
