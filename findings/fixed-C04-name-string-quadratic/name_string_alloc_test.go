package encoding_test

import (
	"runtime"
	"strings"
	"testing"

	enc "github.com/named-data/ndnd/std/encoding"
)

// allocatedBy returns the number of bytes f allocates (not the heap growth: everything
// that is allocated, garbage included).
func allocatedBy(f func()) uint64 {
	var before, after runtime.MemStats
	runtime.GC()
	runtime.ReadMemStats(&before)
	f()
	runtime.ReadMemStats(&after)
	return after.TotalAlloc - before.TotalAlloc
}

// A name as it arrives in a packet of (nearly) the maximum size: one component
// of 8000 octets. The forwarder and the application engine print the names of packets
// they drop (e.g. "Interest ... violates /localhost scope", "Received Data for an
// unknown interest", "No handler"), so the peer decides how often Name.String() runs
// and on what. The memory allocated for printing must stay in proportion to the name.
func TestNameStringAllocationIsProportionalC04(t *testing.T) {
	const valLen = 8000
	const maxFactor = 64 // generous: the text form is at most 3 bytes per octet

	build := func(typ byte, fill byte) []byte {
		// Name TLV { component TLV { valLen x fill } }
		comp := append([]byte{typ, 0xfd, byte(valLen >> 8), byte(valLen & 0xff)}, []byte(strings.Repeat(string([]byte{fill}), valLen))...)
		return append([]byte{0x07, 0xfd, byte(len(comp) >> 8), byte(len(comp) & 0xff)}, comp...)
	}

	cases := []struct {
		desc string
		typ  byte
		fill byte
		want string
	}{
		{"generic component of non-printable octets", 0x08, 0x00, "/" + strings.Repeat("%00", valLen)},
		{"generic component of printable octets", 0x08, 'a', "/" + strings.Repeat("a", valLen)},
		{"digest component (hexadecimal form)", 0x01, 0xab, "/sha256digest=" + strings.Repeat("ab", valLen)},
	}
	for _, c := range cases {
		wire := build(c.typ, c.fill)
		name, err := enc.NameFromBytes(wire)
		if err != nil {
			t.Fatalf("%s: the name does not decode: %v", c.desc, err)
		}
		var s string
		alloc := allocatedBy(func() { s = name.String() })
		if s != c.want {
			t.Errorf("%s: unexpected text form (length %d, expected length %d)", c.desc, len(s), len(c.want))
		}
		if alloc > maxFactor*uint64(len(wire)) {
			t.Errorf("%s: printing a name of %d octets allocated %d bytes, %d times its size "+
				"(expected: memory in proportion to the input, at most %d times)",
				c.desc, len(wire), alloc, alloc/uint64(len(wire)), maxFactor)
		}
	}

	// The same for a name of many components
	var comps []byte
	for i := 0; i < 2000; i++ {
		comps = append(comps, 0x08, 0x02, 'a', 'b')
	}
	wire := append([]byte{0x07, 0xfd, byte(len(comps) >> 8), byte(len(comps) & 0xff)}, comps...)
	name, err := enc.NameFromBytes(wire)
	if err != nil {
		t.Fatalf("name of 2000 components does not decode: %v", err)
	}
	var s string
	alloc := allocatedBy(func() { s = name.String() })
	if s != strings.Repeat("/ab", 2000) {
		t.Errorf("name of 2000 components: unexpected text form (length %d)", len(s))
	}
	if alloc > maxFactor*uint64(len(wire)) {
		t.Errorf("name of 2000 components: printing %d octets allocated %d bytes, %d times its size "+
			"(expected: memory in proportion to the input, at most %d times)",
			len(wire), alloc, alloc/uint64(len(wire)), maxFactor)
	}
}
