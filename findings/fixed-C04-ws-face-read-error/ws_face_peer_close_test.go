package face

import (
	"fmt"
	"net/http"
	"net/http/httptest"
	"strings"
	"testing"
	"time"

	"github.com/gorilla/websocket"
	enc "github.com/named-data/ndnd/std/encoding"
)

// The peer of a WebSocketFace (the forwarder, or whoever answers at the address)
// sends one binary message and then ends the connection: a close frame followed by
// the end of the TCP stream. These are bytes from the network like any other. The
// receive loop of the face has to come to an end (face down); it must not keep
// reading the dead connection in a tight loop, and it must not panic.
func TestWebSocketFaceRunEndsWhenPeerClosesC04(t *testing.T) {
	upgrader := websocket.Upgrader{CheckOrigin: func(*http.Request) bool { return true }}
	srv := httptest.NewServer(http.HandlerFunc(func(w http.ResponseWriter, r *http.Request) {
		c, err := upgrader.Upgrade(w, r, nil)
		if err != nil {
			return
		}
		// An Interest for /A, then good-bye
		c.WriteMessage(websocket.BinaryMessage, []byte{0x05, 0x05, 0x07, 0x03, 0x08, 0x01, 0x41})
		c.WriteMessage(websocket.CloseMessage, websocket.FormatCloseMessage(websocket.CloseNormalClosure, "bye"))
		c.Close()
	}))
	defer srv.Close()

	conn, _, err := websocket.DefaultDialer.Dial("ws"+strings.TrimPrefix(srv.URL, "http"), nil)
	if err != nil {
		t.Fatalf("cannot connect to the test server: %v", err)
	}
	defer conn.Close()

	// The face as Open() sets it up, but with Run under the control of the test so
	// that a panic of the receive loop is reported instead of killing the test binary
	f := NewWebSocketFace("ws", strings.TrimPrefix(srv.URL, "http://"), false)
	nPkt := 0
	f.SetCallback(func(r enc.ParseReader) error {
		nPkt++
		return nil
	}, func(err error) error {
		return err
	})
	f.conn = conn
	f.running.Store(true)

	done := make(chan string, 1)
	go func() {
		defer func() {
			if x := recover(); x != nil {
				done <- fmt.Sprintf("the receive loop panicked: %v", x)
			}
		}()
		f.Run()
		done <- ""
	}()

	select {
	case msg := <-done:
		if msg != "" {
			t.Fatalf("the peer closed the WebSocket connection and %s "+
				"(expected: Run returns and the face is down; bytes from the network never crash the receive path)", msg)
		}
	case <-time.After(10 * time.Second):
		t.Fatalf("the peer closed the WebSocket connection 10s ago and Run is still going " +
			"(expected: Run returns and the face is down; the receive path never spins)")
	}
	if nPkt != 1 {
		t.Errorf("the packet sent before the close was delivered %d times, expected once", nPkt)
	}
	if f.IsRunning() {
		t.Errorf("Run has returned but the face still claims to be running")
	}
}
