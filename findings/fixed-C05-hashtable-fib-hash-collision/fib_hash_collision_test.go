package table

import (
	"bytes"
	"encoding/binary"
	"math/bits"
	"testing"

	enc "github.com/named-data/ndnd/std/encoding"
)

// The PIT-CS tree identifies a name component by Component.Hash() (children map) and
// a cached name by Name.Hash() (csMap), and never compares the components/names
// themselves. The hash is unkeyed xxHash64, for which second pre-images are a few
// lines of arithmetic: each 32-byte stripe updates four independent 64-bit lanes with
// acc = rotl31(acc + input*P2) * P1, which is a bijection in "input", so a difference
// introduced in one lane by the first stripe is cancelled in the second stripe.

const (
	demoXXP1 uint64 = 11400714785074694791
	demoXXP2 uint64 = 14029467366897019727
)

func demoXXRound(acc, input uint64) uint64 {
	acc += input * demoXXP2
	acc = bits.RotateLeft64(acc, 31)
	return acc * demoXXP1
}

// demoInv64 returns the inverse of the odd number a modulo 2^64.
func demoInv64(a uint64) uint64 {
	x := a
	for i := 0; i < 6; i++ {
		x *= 2 - a*x
	}
	return x
}

// demoCollidingNames returns two different one-component names (generic components
// of 48 bytes) with the same Name.Hash() and the same Component.Hash().
//
// Hash input of such a name: type(8 bytes) | length(8 bytes) | value(48 bytes), i.e.
// exactly two stripes. Lane 2 (initial accumulator 0 for seed 0) reads value[0:8] in
// the first stripe and value[32:40] in the second.
func demoCollidingNames() (enc.Name, enc.Name) {
	valA := bytes.Repeat([]byte{'A'}, 48)
	valB := bytes.Repeat([]byte{'A'}, 48)
	copy(valB[0:8], "BBBBBBBB")

	a1 := binary.LittleEndian.Uint64(valA[0:8])
	a2 := binary.LittleEndian.Uint64(valA[32:40])
	b1 := binary.LittleEndian.Uint64(valB[0:8])

	target := demoXXRound(demoXXRound(0, a1), a2) // lane 2 of name A after two stripes
	accB := demoXXRound(0, b1)                     // lane 2 of name B after one stripe
	// solve rotl31(accB + b2*P2) * P1 == target for b2
	b2 := (bits.RotateLeft64(target*demoInv64(demoXXP1), -31) - accB) * demoInv64(demoXXP2)
	binary.LittleEndian.PutUint64(valB[32:40], b2)

	return enc.Name{enc.Component{Typ: enc.TypeGenericNameComponent, Val: valA}},
		enc.Name{enc.Component{Typ: enc.TypeGenericNameComponent, Val: valB}}
}


// Copy into fw/table and run: go test -vet=off -count=1 -run TestFibHashTableDistinctNamesWithEqualHash ./fw/table/
// Fails on the tree as of the known finding C05 R5.12 (hashtable sub-case), passes for the name-tree FIB.
func TestFibHashTableDistinctNamesWithEqualHash(t *testing.T) {
	a, b := demoCollidingNames()
	if a.Equal(b) || a.Hash() != b.Hash() {
		t.Skip("no collision constructed")
	}
	for _, algo := range []string{"nametree", "hashtable"} {
		CreateFIBTable(algo)
		FibStrategyTable.InsertNextHopEnc(a, 7, 10)
		got := FibStrategyTable.FindNextHopsEnc(b)
		if len(got) != 0 {
			t.Errorf("%s: lookup of name B returned the next hops of the different name A: %v", algo, got[0].Nexthop)
		}
	}
}
