package table

import (
	"sync"
	"testing"

	enc "github.com/named-data/ndnd/std/encoding"
)

// The PIT size is reported to management (status/general sums Thread.GetNumPitEntries,
// i.e. PitCsTable.PitSize, over the forwarding threads) from the management goroutine
// while the forwarding thread that owns the table inserts and reaps entries. The
// reported size must equal the true number of entries, so the read must be
// synchronised with the forwarding thread (as the CS size is: an atomic value).
//
// Run with -race: the management read of PitSize() and the forwarding thread's
// InsertInterest / RemoveInterest are not ordered by anything, which the race
// detector reports ("DATA RACE", "testing.go: race detected during execution of test").
func TestPitSizeReportedToManagementIsSynchronised(t *testing.T) {
	csReplacementPolicy = "lru"
	pitCS := NewPitCS(func(PitEntry) {})

	name, _ := enc.NameFromStr("/pit/size/report")

	var wg sync.WaitGroup
	wg.Add(1)
	reported := -1
	go func() {
		// management goroutine: ForwarderStatusModule.general -> Thread.GetNumPitEntries
		defer wg.Done()
		reported = pitCS.PitSize()
	}()

	// forwarding thread: an Interest arrives, later its entry is reaped
	entry, _ := pitCS.InsertInterest(makeInterest(name), nil, 1)
	pitCS.RemoveInterest(entry)

	wg.Wait()
	if reported < 0 || reported > 1 {
		t.Fatalf("PitSize reported %d entries, the PIT held 0 or 1", reported)
	}
	if got := pitCS.PitSize(); got != 0 {
		t.Fatalf("PitSize reports %d entries at quiescence, the PIT is empty", got)
	}
}
