package face

// Demonstration for property C10: a network packet up to the maximum NDN packet size that
// an internal component (management) sends over the internal face must reach the
// forwarder exactly, once, with its PIT token.
//
// InternalTransport.Send wraps the packet into an LpPacket (Fragment header, PIT token,
// NextHopFaceId), but InternalTransport.runReceive drops every frame longer than
// defn.MaxNDNPacketSize - the limit of the *packet*, not of the frame. The other direction
// of the same link (sendFrame) allows internalTransportMTU = MaxNDNPacketSize + 128 for
// exactly this reason. A Data packet of 8785..8800 bytes (e.g. a ControlResponse whose
// name is a long command Interest name) never leaves management.

import (
	"bytes"
	"sync"
	"testing"
	"time"

	defn "github.com/named-data/ndnd/fw/defn"
	"github.com/named-data/ndnd/fw/dispatch"
	"github.com/named-data/ndnd/fw/fw"
	enc "github.com/named-data/ndnd/std/encoding"
	spec "github.com/named-data/ndnd/std/ndn/spec_2022"
)

type c10f2Thread struct {
	mu   sync.Mutex
	pkts []*defn.Pkt
}

func (r *c10f2Thread) count() int { r.mu.Lock(); defer r.mu.Unlock(); return len(r.pkts) }

func (r *c10f2Thread) String() string        { return "c10f2Thread" }
func (r *c10f2Thread) QueueData(p *defn.Pkt) { r.mu.Lock(); r.pkts = append(r.pkts, p); r.mu.Unlock() }
func (r *c10f2Thread) QueueInterest(p *defn.Pkt) {
	r.mu.Lock()
	r.pkts = append(r.pkts, p)
	r.mu.Unlock()
}
func (r *c10f2Thread) GetNumPitEntries() int { return 0 }
func (r *c10f2Thread) GetNumCsEntries() int  { return 0 }

func c10f2TL(typ int, length int) []byte {
	buf := make([]byte, 18)
	n := enc.TLNum(typ).EncodeInto(buf)
	n += enc.TLNum(length).EncodeInto(buf[n:])
	return buf[:n]
}

// c10f2Data builds a well-formed Data packet /a of exactly size bytes (size >= 300).
func c10f2Data(t *testing.T, size int) []byte {
	for contentLen := size - 11; contentLen > size-30; contentLen-- {
		inner := []byte{0x07, 0x03, 0x08, 0x01, 'a'}
		inner = append(inner, c10f2TL(0x15, contentLen)...)
		for i := 0; i < contentLen; i++ {
			inner = append(inner, byte(i*7+size))
		}
		inner = append(inner, 0x16, 0x03, 0x1b, 0x01, 0x00, 0x17, 0x00)
		pkt := append(c10f2TL(0x06, len(inner)), inner...)
		if len(pkt) == size {
			return pkt
		}
	}
	t.Fatalf("cannot build a Data packet of %d bytes", size)
	return nil
}

func TestC10InternalFaceCarriesMaximumSizePacketFromComponent(t *testing.T) {
	rec := &c10f2Thread{}
	fw.Threads = make([]*fw.Thread, 1)
	dispatch.InitializeFWThreads([]dispatch.FWThread{rec})

	oldQueueSize := faceQueueSize
	faceQueueSize = 16
	defer func() { faceQueueSize = oldQueueSize }()

	token := []byte{0, 0, 1, 2, 3, 4} // PIT token of forwarding thread 0
	nextHop := uint64(300)

	for _, size := range []int{8000, 8770, 8785, 8792, 8800} {
		if size > defn.MaxNDNPacketSize {
			t.Fatalf("bad test: %d is more than the maximum packet size", size)
		}
		raw := c10f2Data(t, size)
		if _, _, err := spec.ReadPacket(enc.NewBufferReader(raw)); err != nil {
			t.Fatalf("test packet of %d bytes does not parse: %v", size, err)
		}

		// The internal face as RegisterInternalTransport sets it up (without the
		// goroutines and the face table)
		transport := MakeInternalTransport()
		options := MakeNDNLPLinkServiceOptions()
		options.IsFragmentationEnabled = false
		options.IsIncomingFaceIndicationEnabled = true
		options.IsConsumerControlledForwardingEnabled = true
		MakeNDNLPLinkService(transport, options)

		// The component sends the packet; then the link is closed so that runReceive
		// returns once everything that was sent has been handed to the link service
		rec.pkts = nil
		// (adapted to the internal transport as repaired by dc1c91d, whose queues are no
		// longer closed: the receive loop runs until the packet was handed over or 2 s passed)
		done := make(chan struct{})
		go func() { transport.runReceive(); close(done) }()
		transport.Send(enc.Wire{raw}, token, &nextHop)
		for i := 0; i < 200 && rec.count() == 0; i++ {
			time.Sleep(10 * time.Millisecond)
		}
		transport.Close()
		<-done

		if len(rec.pkts) != 1 {
			t.Errorf("a Data packet of %d bytes (maximum packet size %d) sent by the internal component "+
				"was delivered %d times by the internal face, want exactly once",
				size, defn.MaxNDNPacketSize, len(rec.pkts))
			continue
		}
		if !bytes.Equal(rec.pkts[0].Raw, raw) {
			t.Errorf("packet of %d bytes: delivered bytes differ from the ones sent", size)
		}
		if !bytes.Equal(rec.pkts[0].PitToken, token) {
			t.Errorf("packet of %d bytes: delivered PIT token %v, want %v", size, rec.pkts[0].PitToken, token)
		}
	}
}
