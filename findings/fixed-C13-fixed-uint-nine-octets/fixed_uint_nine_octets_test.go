package spec_2022_test

import (
	"testing"

	enc "github.com/named-data/ndnd/std/encoding"
	spec "github.com/named-data/ndnd/std/ndn/spec_2022"
)

// An LpPacket whose TxSequence (a fixed-width 8-octet integer, type 0x0348) announces nine
// octets 01 00 00 00 00 00 00 00 00 (followed by a one-octet Fragment): the generated reader shifted the first octet out and
// decoded 0, which re-encodes as eight zero octets - not the element that was received.
func TestFixedUintLongerThanItsWidthIsRejected(t *testing.T) {
	wire := []byte{0x64, 0x10, 0xfd, 0x03, 0x48, 0x09, 0x01, 0, 0, 0, 0, 0, 0, 0, 0, 0x50, 0x01, 0xaa}
	pkt, _, err := spec.ReadPacket(enc.NewBufferReader(wire))
	if err == nil {
		if pkt.LpPacket != nil && pkt.LpPacket.TxSequence != nil {
			t.Fatalf("nine-octet TxSequence 2^64 decoded as %d without an error", *pkt.LpPacket.TxSequence)
		}
		t.Fatalf("nine-octet TxSequence accepted")
	}
}
