package object_test

// C15 demonstration: many concurrent consumers of the same object dead-lock the client.
//
// All consumers of one object have their metadata Interest pending under the same
// name, so the one metadata Data that arrives satisfies all of them inside a single
// Engine.onData call, which holds the engine's PIT lock while it runs the callbacks.
// Each callback hands its ConsumeState to the client goroutine through the bounded
// channel Client.segfetch (128 places). The client goroutine, however, stops reading
// that channel as soon as it starts its first segment Interest: Engine.Express needs
// the PIT lock that onData is holding. With more than about 130 consumers the channel
// fills up, onData blocks on it for ever with the lock held, the client goroutine
// blocks on the lock for ever: no callback ever reports completion, and every later
// Consume on that client hangs too.

import (
	"bytes"
	"math/rand"
	"sync"
	"testing"
	"time"

	enc "github.com/named-data/ndnd/std/encoding"
	"github.com/named-data/ndnd/std/engine/basic"
	"github.com/named-data/ndnd/std/ndn"
	spec "github.com/named-data/ndnd/std/ndn/spec_2022"
	"github.com/named-data/ndnd/std/object"
	sec "github.com/named-data/ndnd/std/security"
)

// in-memory face: what one side sends is delivered, in order, to the other side
type c15f4Face struct {
	mu      sync.Mutex
	running bool
	onPkt   func(r enc.ParseReader) error
	out     chan []byte
}

func (f *c15f4Face) Open() error  { f.mu.Lock(); f.running = true; f.mu.Unlock(); return nil }
func (f *c15f4Face) Close() error { f.mu.Lock(); f.running = false; f.mu.Unlock(); return nil }
func (f *c15f4Face) IsRunning() bool {
	f.mu.Lock()
	defer f.mu.Unlock()
	return f.running
}
func (f *c15f4Face) IsLocal() bool { return true }
func (f *c15f4Face) SetCallback(onPkt func(r enc.ParseReader) error, onError func(err error) error) {
	f.onPkt = onPkt
}
func (f *c15f4Face) Send(pkt enc.Wire) error {
	f.out <- append([]byte(nil), pkt.Join()...)
	return nil
}

func TestC15ManyConsumersOfOneObjectAllComplete(t *testing.T) {
	const consumers = 400

	timer := basic.NewTimer()
	consFace := &c15f4Face{out: make(chan []byte, 1<<16)}
	prodFace := &c15f4Face{out: make(chan []byte, 1<<16)}
	mkEngine := func(f *c15f4Face) *basic.Engine {
		return basic.NewEngine(f, timer, sec.NewSha256IntSigner(timer),
			func(enc.Name, enc.Wire, ndn.Signature) bool { return true })
	}
	consEngine, prodEngine := mkEngine(consFace), mkEngine(prodFace)
	if err := consEngine.Start(); err != nil {
		t.Fatal(err)
	}
	if err := prodEngine.Start(); err != nil {
		t.Fatal(err)
	}
	stop := make(chan struct{})
	defer close(stop)

	// consumer -> producer: unchanged
	go func() {
		for {
			select {
			case <-stop:
				return
			case p := <-consFace.out:
				prodFace.onPkt(enc.NewBufferReader(p))
			}
		}
	}()
	// producer -> consumer: the metadata Data are held back until every consumer has
	// its metadata Interest out (a slow path; nothing is lost, nothing is reordered
	// among the segments)
	go func() {
		metaSeen := 0
		var held [][]byte
		for {
			select {
			case <-stop:
				return
			case p := <-prodFace.out:
				pkt, _, err := spec.ReadPacket(enc.NewBufferReader(p))
				isMeta := false
				if err == nil && pkt.Data != nil {
					for _, c := range pkt.Data.NameV {
						if c.Typ == enc.TypeKeywordNameComponent {
							isMeta = true
						}
					}
				}
				if isMeta && metaSeen < consumers {
					metaSeen++
					held = append(held, p)
					if metaSeen < consumers {
						continue
					}
					for _, q := range held {
						consFace.onPkt(enc.NewBufferReader(q))
					}
					held = nil
					continue
				}
				consFace.onPkt(enc.NewBufferReader(p))
			}
		}
	}()

	prod := object.NewClient(prodEngine, object.NewMemoryStore())
	cons := object.NewClient(consEngine, object.NewMemoryStore())
	if err := prod.Start(); err != nil {
		t.Fatal(err)
	}
	if err := cons.Start(); err != nil {
		t.Fatal(err)
	}

	content := make([]byte, 3*8000+1)
	rand.New(rand.NewSource(15)).Read(content)
	name, _ := enc.NameFromStr("/c15/popular")
	if _, err := prod.Produce(object.ProduceArgs{
		Name:    name,
		Content: enc.Wire{append([]byte(nil), content...)},
	}); err != nil {
		t.Fatal(err)
	}

	var mu sync.Mutex
	completions := make([]int, consumers)
	bad := 0
	done := make(chan int, 4*consumers)
	for i := 0; i < consumers; i++ {
		i := i
		var got []byte
		go cons.Consume(name, func(st *object.ConsumeState) bool {
			if st.IsComplete() {
				got = append(got, st.Content()...)
				mu.Lock()
				completions[i]++
				if st.Error() != nil || !bytes.Equal(got, content) {
					bad++
				}
				mu.Unlock()
				done <- i
			}
			return true
		})
	}

	deadline := time.After(20 * time.Second)
	finished := 0
wait:
	for finished < consumers {
		select {
		case <-done:
			finished++
		case <-deadline:
			break wait
		}
	}
	time.Sleep(100 * time.Millisecond)
	mu.Lock()
	defer mu.Unlock()
	if finished < consumers {
		t.Fatalf("%d consumers asked for the same %d-byte object at the same time; 20 s later only %d of their "+
			"callbacks have reported completion (no packet was lost: the client goroutine and the engine "+
			"wait for each other)", consumers, len(content), finished)
	}
	for i, n := range completions {
		if n != 1 {
			t.Fatalf("consumer %d: completion reported %d times, want exactly once", i, n)
		}
	}
	if bad != 0 {
		t.Fatalf("%d of %d consumers completed with an error or with content that differs from what was published", bad, consumers)
	}
}
