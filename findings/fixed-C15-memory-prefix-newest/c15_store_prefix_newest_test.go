package object_test

// C15 demonstration: the two ndn.Store implementations disagree on a prefix query,
// and the in-memory one does not return the newest version.
//
// ndn.Store.Get(name, prefix=true) is documented as "return the newest Data wire with
// the given prefix" (std/ndn/store.go); object.Client.onInterest answers every
// CanBePrefix Interest with it. BoltStore examines every key that has the prefix, the
// key equal to the prefix included, and returns the highest version. MemoryStore
// stops at the node of the name itself when that node holds a packet and never looks
// at the newer packets below it.

import (
	"os"
	"path/filepath"
	"testing"

	enc "github.com/named-data/ndnd/std/encoding"
	"github.com/named-data/ndnd/std/ndn"
	"github.com/named-data/ndnd/std/object"
)

func TestC15PrefixGetReturnsNewestInBothStores(t *testing.T) {
	dir, err := os.MkdirTemp("", "c15")
	if err != nil {
		t.Fatal(err)
	}
	defer os.RemoveAll(dir)
	bolt, err := object.NewBoltStore(filepath.Join(dir, "store.db"))
	if err != nil {
		t.Fatal(err)
	}
	defer bolt.Close()

	stores := []struct {
		kind  string
		store ndn.Store
	}{
		{"BoltStore", bolt},
		{"MemoryStore", object.NewMemoryStore()},
	}

	prefix, _ := enc.NameFromStr("/c15/obj")
	older := []byte("packet of version 1, named /c15/obj")
	newer := []byte("packet of version 2, named /c15/obj/v=2/seg=0")
	newest := []byte("packet of version 3, named /c15/obj/v=3/seg=0")

	for _, s := range stores {
		// the same history in both stores
		if err := s.store.Put(prefix, 1, older); err != nil {
			t.Fatal(err)
		}
		if err := s.store.Put(append(prefix.Clone(), enc.NewVersionComponent(2), enc.NewSegmentComponent(0)), 2, newer); err != nil {
			t.Fatal(err)
		}
		if err := s.store.Put(append(prefix.Clone(), enc.NewVersionComponent(3), enc.NewSegmentComponent(0)), 3, newest); err != nil {
			t.Fatal(err)
		}

		got, err := s.store.Get(prefix, true)
		if err != nil {
			t.Fatal(err)
		}
		if string(got) != string(newest) {
			t.Errorf("%s: versions 1, 2 and 3 are stored under the prefix %s; Get(prefix=true) must return the newest "+
				"(%q) but returned %q", s.kind, prefix, newest, got)
		}

		// removing the newest: the next one is served, the removed one is not
		if err := s.store.Remove(append(prefix.Clone(), enc.NewVersionComponent(3)), true); err != nil {
			t.Fatal(err)
		}
		got, _ = s.store.Get(prefix, true)
		if string(got) != string(newer) {
			t.Errorf("%s: after removing version 3, Get(prefix=true) must return version 2 (%q) but returned %q",
				s.kind, newer, got)
		}

		// the exact query is not affected
		got, _ = s.store.Get(prefix, false)
		if string(got) != string(older) {
			t.Errorf("%s: Get(prefix=false) must return the packet stored under exactly that name, got %q", s.kind, got)
		}
	}
}
