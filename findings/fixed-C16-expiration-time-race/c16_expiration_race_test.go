package face

import (
	"net"
	"sync"
	"testing"
	"time"

	defn "github.com/named-data/ndnd/fw/defn"
)

// The face table's expiration handler (Table.ExpirationHandler, one goroutine for the
// whole table) asks every face for transport.ExpirationPeriod() and tears expired faces
// down, while the send goroutine of each face (runSend -> sendFrame) and its receive
// goroutine keep pushing the expiration time of the face forward. The property demands
// that face-table operations and face goroutines run concurrently without data races.
//
// Run with -race: the unsynchronised read of *expirationTime in ExpirationPeriod against
// the write in sendFrame is reported and the test fails.
func TestC16ExpirationHandlerVersusFaceSendGoroutine(t *testing.T) {
	udpLifetime = 600 * time.Second

	// A peer that swallows the datagrams, so that every send succeeds
	peer, err := net.ListenUDP("udp4", &net.UDPAddr{IP: net.IPv4(127, 0, 0, 1)})
	if err != nil {
		t.Skip("no loopback UDP: ", err)
	}
	defer peer.Close()
	go func() {
		buf := make([]byte, 9000)
		for {
			if _, _, err := peer.ReadFromUDP(buf); err != nil {
				return
			}
		}
	}()

	remote := defn.MakeUDPFaceURI(4, "127.0.0.1", uint16(peer.LocalAddr().(*net.UDPAddr).Port))
	transport, err := MakeUnicastUDPTransport(remote, nil, PersistencyOnDemand)
	if err != nil {
		t.Fatal("cannot create the UDP transport: ", err)
	}
	defer transport.Close()
	link := MakeNDNLPLinkService(transport, MakeNDNLPLinkServiceOptions())
	FaceTable.Add(link)
	defer FaceTable.faces.Delete(link.FaceID())

	const rounds = 2000
	var wg sync.WaitGroup
	wg.Add(2)

	// The face's send goroutine: what runSend does for every queued packet
	go func() {
		defer wg.Done()
		frame := []byte{0x05, 0x03, 0x07, 0x01, 0x00}
		for i := 0; i < rounds; i++ {
			transport.sendFrame(frame)
		}
	}()

	// The table's expiration handler: the body of the loop in Table.ExpirationHandler
	expired := 0
	go func() {
		defer wg.Done()
		for i := 0; i < rounds; i++ {
			FaceTable.faces.Range(func(_, face interface{}) bool {
				tr := face.(LinkService).Transport()
				if tr != nil && tr.ExpirationPeriod() < 0 {
					expired++
				}
				return true
			})
		}
	}()
	wg.Wait()

	if expired != 0 {
		t.Errorf("a face that was sending all the time (lifetime %v) was seen as expired %d times", udpLifetime, expired)
	}
	t.Log("expectation: the expiration handler may inspect a face while the face's own goroutines " +
		"refresh its expiration time, without a data race (the race detector must stay silent)")
}
