package fw

// Demonstration for property C09 ("/localhost traffic never crosses a non-local face ...
// Local faces are unaffected: /localhost exchanges between local applications and the
// forwarder itself always work").
//
// History: a local consumer asks for /localhost/app/ping, which is forwarded to a local
// producer. Before the producer answers, a NON-LOCAL face sends Data named /evil/data that
// carries the PIT token of the pending /localhost Interest. The forwarder looks the PIT
// entry up by token alone, without comparing names: the foreign Data is handed to the local
// consumer in answer to its /localhost Interest, the PIT entry is consumed, and the genuine
// /localhost Data of the local producer is then dropped as unsolicited.

import (
	"sync"
	"testing"
	"time"

	"github.com/named-data/ndnd/fw/core"
	"github.com/named-data/ndnd/fw/defn"
	"github.com/named-data/ndnd/fw/dispatch"
	"github.com/named-data/ndnd/fw/table"
	enc "github.com/named-data/ndnd/std/encoding"
	"github.com/named-data/ndnd/std/ndn"
	spec "github.com/named-data/ndnd/std/ndn/spec_2022"
	sec "github.com/named-data/ndnd/std/security"
	"github.com/named-data/ndnd/std/utils"
)

type c09FakeFace struct {
	id    uint64
	scope defn.Scope
	mu    sync.Mutex
	sent  []dispatch.OutPkt
}

func (f *c09FakeFace) String() string          { return "c09-fake-face" }
func (f *c09FakeFace) SetFaceID(id uint64)     { f.id = id }
func (f *c09FakeFace) FaceID() uint64          { return f.id }
func (f *c09FakeFace) LocalURI() *defn.URI     { return nil }
func (f *c09FakeFace) RemoteURI() *defn.URI    { return nil }
func (f *c09FakeFace) Scope() defn.Scope       { return f.scope }
func (f *c09FakeFace) LinkType() defn.LinkType { return defn.PointToPoint }
func (f *c09FakeFace) MTU() int                { return defn.MaxNDNPacketSize }
func (f *c09FakeFace) State() defn.State       { return defn.Up }
func (f *c09FakeFace) SendPacket(out dispatch.OutPkt) {
	f.mu.Lock()
	defer f.mu.Unlock()
	// Snapshot what matters: the forwarder may reuse the packet object
	cp := *out.Pkt
	f.sent = append(f.sent, dispatch.OutPkt{Pkt: &cp, PitToken: append([]byte{}, out.PitToken...), InFace: out.InFace})
}
func (f *c09FakeFace) take() []dispatch.OutPkt {
	f.mu.Lock()
	defer f.mu.Unlock()
	ret := f.sent
	f.sent = nil
	return ret
}

func c09Name(t *testing.T, s string) enc.Name {
	n, err := enc.NameFromStr(s)
	if err != nil {
		t.Fatal(err)
	}
	return n
}

func c09Interest(t *testing.T, name string, nonce uint64, inFace uint64) *defn.Pkt {
	i, err := spec.Spec{}.MakeInterest(c09Name(t, name), &ndn.InterestConfig{
		Nonce:    utils.IdPtr(nonce),
		Lifetime: utils.IdPtr(4 * time.Second),
	}, nil, nil)
	if err != nil {
		t.Fatal(err)
	}
	raw := i.Wire.Join()
	l3, _, err := spec.ReadPacket(enc.NewBufferReader(raw))
	if err != nil || l3.Interest == nil {
		t.Fatal("cannot parse own Interest: ", err)
	}
	return &defn.Pkt{Name: l3.Interest.NameV, L3: l3, Raw: raw, IncomingFaceID: utils.IdPtr(inFace)}
}

func c09Data(t *testing.T, name string, inFace uint64, pitToken []byte) *defn.Pkt {
	d, err := spec.Spec{}.MakeData(c09Name(t, name), &ndn.DataConfig{
		ContentType: utils.IdPtr(ndn.ContentTypeBlob),
		Freshness:   utils.IdPtr(time.Second),
	}, enc.Wire{[]byte("payload")}, sec.NewSha256Signer())
	if err != nil {
		t.Fatal(err)
	}
	raw := d.Wire.Join()
	l3, _, err := spec.ReadPacket(enc.NewBufferReader(raw))
	if err != nil || l3.Data == nil {
		t.Fatal("cannot parse own Data: ", err)
	}
	return &defn.Pkt{Name: l3.Data.NameV, L3: l3, Raw: raw, IncomingFaceID: utils.IdPtr(inFace),
		PitToken: append([]byte{}, pitToken...)}
}

func TestC09TokenDataFromNonLocalFaceHijacksLocalhostExchange(t *testing.T) {
	core.LoadConfig(core.DefaultConfig(), "")
	table.Configure()
	table.CreateFIBTable("nametree")
	Configure()

	th := NewThread(0)
	Threads = []*Thread{th}
	dispatch.InitializeFWThreads([]dispatch.FWThread{th})

	consumer := &c09FakeFace{id: 9101, scope: defn.Local}
	producer := &c09FakeFace{id: 9102, scope: defn.Local}
	remote := &c09FakeFace{id: 9103, scope: defn.NonLocal}
	for _, f := range []*c09FakeFace{consumer, producer, remote} {
		dispatch.AddFace(f.id, f)
		defer dispatch.RemoveFace(f.id)
	}
	table.FibStrategyTable.InsertNextHopEnc(c09Name(t, "/localhost/app"), producer.id, 0)

	// 1. local consumer -> forwarder -> local producer
	th.processIncomingInterest(c09Interest(t, "/localhost/app/ping", 0x11223344, consumer.id))
	out := producer.take()
	if len(out) != 1 || out[0].Pkt.L3.Interest == nil {
		t.Fatalf("setup: the /localhost Interest of the local consumer was not forwarded to the local producer (%d packets)", len(out))
	}
	token := out[0].PitToken
	if len(token) != 6 {
		t.Fatalf("setup: expected the forwarder's 6-octet PIT token, got %x", token)
	}
	if got := remote.take(); len(got) != 0 {
		t.Fatalf("/localhost Interest was transmitted on the non-local face")
	}

	// 2. a non-local face sends Data of another name, addressed by that PIT token
	th.processIncomingData(c09Data(t, "/evil/data", remote.id, token))
	for _, p := range consumer.take() {
		t.Errorf("C09 violated: Data %s accepted from NON-LOCAL face %d was delivered to the local consumer "+
			"in answer to its pending Interest /localhost/app/ping (PIT entry found by token only, names never compared)",
			p.Pkt.Name, remote.id)
	}

	// 3. the local producer answers: the /localhost exchange between local faces must complete
	th.processIncomingData(c09Data(t, "/localhost/app/ping", producer.id, token))
	got := consumer.take()
	ok := false
	for _, p := range got {
		if p.Pkt.L3.Data != nil && p.Pkt.Name.String() == "/localhost/app/ping" {
			ok = true
		}
	}
	if !ok {
		t.Errorf("C09 violated (\"/localhost exchanges between local applications ... always work\"): "+
			"the genuine Data /localhost/app/ping of the local producer never reached the local consumer "+
			"(%d packets delivered) because Data from the non-local face had consumed the PIT entry", len(got))
	}
}
