package object_test

// C15 demonstration: an object published under a long (but legal) name is never
// retrieved. Produce cuts the content into 8000-byte segments whatever the length
// of the name, so with a name of about 720 bytes or more every full segment is a
// Data packet of more than 8800 bytes, the maximum NDN packet size. Such a packet
// is refused by the receiving face (std/engine/face/stream_face.go tears the face
// down: "received TLV block larger than the maximum packet size"), as it would be
// by a forwarder. Produce nevertheless reports success.
//
// The consumer and the producer below are two object clients on two basic engines
// with the repository's own StreamFace (the face used by putchunks/catchunks),
// connected through a unix socket by a relay that copies bytes unchanged.

import (
	"bytes"
	"fmt"
	"math/rand"
	"net"
	"os"
	"path/filepath"
	"strings"
	"testing"
	"time"

	enc "github.com/named-data/ndnd/std/encoding"
	"github.com/named-data/ndnd/std/engine"
	"github.com/named-data/ndnd/std/object"
)

func c15f1Relay(a, b net.Conn) {
	buf := make([]byte, 65536)
	for {
		n, err := a.Read(buf)
		if n > 0 {
			if _, werr := b.Write(buf[:n]); werr != nil {
				return
			}
		}
		if err != nil {
			b.Close()
			return
		}
	}
}

func TestC15LongNameObjectIsRetrieved(t *testing.T) {
	dir, err := os.MkdirTemp("", "c15")
	if err != nil {
		t.Fatal(err)
	}
	defer os.RemoveAll(dir)
	sock := filepath.Join(dir, "s.sock")
	ln, err := net.Listen("unix", sock)
	if err != nil {
		t.Fatal(err)
	}
	defer ln.Close()
	go func() {
		a, err := ln.Accept()
		if err != nil {
			return
		}
		b, err := ln.Accept()
		if err != nil {
			return
		}
		go c15f1Relay(a, b)
		go c15f1Relay(b, a)
	}()

	prodEngine := engine.NewBasicEngine(engine.NewUnixFace(sock))
	if err := prodEngine.Start(); err != nil {
		t.Fatal(err)
	}
	defer prodEngine.Stop()
	consEngine := engine.NewBasicEngine(engine.NewUnixFace(sock))
	if err := consEngine.Start(); err != nil {
		t.Fatal(err)
	}
	defer consEngine.Stop()

	prodStore := object.NewMemoryStore()
	prod := object.NewClient(prodEngine, prodStore)
	if err := prod.Start(); err != nil {
		t.Fatal(err)
	}
	defer prod.Stop()
	cons := object.NewClient(consEngine, object.NewMemoryStore())
	if err := cons.Start(); err != nil {
		t.Fatal(err)
	}
	defer cons.Stop()

	// the same content under a short name and under a long one
	content := make([]byte, 2*8000+1)
	rand.New(rand.NewSource(15)).Read(content)

	for _, nameLen := range []int{20, 800} {
		name, err := enc.NameFromStr("/c15/" + strings.Repeat("n", nameLen))
		if err != nil {
			t.Fatal(err)
		}
		vname, err := prod.Produce(object.ProduceArgs{
			Name:    name,
			Content: enc.Wire{append([]byte(nil), content...)},
		})
		if err != nil {
			// refusing to publish would be an honest answer; claiming success is not
			t.Fatalf("name of %d bytes: Produce failed: %v", nameLen, err)
		}
		seg0, _ := prodStore.Get(append(vname.Clone(), enc.NewSegmentComponent(0)), false)

		type outcome struct {
			err     error
			content []byte
		}
		done := make(chan outcome, 4)
		cons.Consume(name, func(st *object.ConsumeState) bool {
			if st.IsComplete() {
				done <- outcome{err: st.Error(), content: st.Content()}
			}
			return true
		})
		select {
		case res := <-done:
			if res.err != nil {
				t.Fatalf("object of %d bytes published under a name of %d bytes: Produce reported success "+
					"but the consumer got the error %q instead of the content (segment 0 is a packet of %d bytes; "+
					"the maximum NDN packet size is 8800)", len(content), nameLen, fmt.Sprint(res.err), len(seg0))
			}
			if !bytes.Equal(res.content, content) {
				t.Fatalf("name of %d bytes: retrieved %d bytes that differ from the %d bytes published",
					nameLen, len(res.content), len(content))
			}
		case <-time.After(60 * time.Second):
			t.Fatalf("name of %d bytes: the consumer's callback never reported completion", nameLen)
		}
	}
}
