package object_test

// C15 demonstration: an object whose name ends with a version component cannot be
// retrieved by the name it was published under.
//
// Consume treats a trailing version component as "this is the versioned name: skip
// the metadata discovery and fetch <name>/seg=0 ...", Produce does not: it appends a
// second version component (the timestamp) and stores <name>/v=<timestamp>/seg=N.
// The consumer that asks for the very name given to Produce therefore requests
// packets that were never stored and ends with an error.
//
// Producer and consumer are two object clients on two basic engines whose faces are
// joined in memory; nothing is lost or reordered. The engines share a timer that
// runs 50 times faster than the wall clock so that the failing run does not have to
// sit through 4 x 4 s of Interest lifetimes.

import (
	"bytes"
	"math/rand"
	"sync"
	"testing"
	"time"

	enc "github.com/named-data/ndnd/std/encoding"
	"github.com/named-data/ndnd/std/engine/basic"
	"github.com/named-data/ndnd/std/ndn"
	"github.com/named-data/ndnd/std/object"
	sec "github.com/named-data/ndnd/std/security"
)

// in-memory face: what one side sends is delivered, in order, to the other side
type c15f2Face struct {
	mu      sync.Mutex
	running bool
	onPkt   func(r enc.ParseReader) error
	out     chan []byte
}

func (f *c15f2Face) Open() error  { f.mu.Lock(); f.running = true; f.mu.Unlock(); return nil }
func (f *c15f2Face) Close() error { f.mu.Lock(); f.running = false; f.mu.Unlock(); return nil }
func (f *c15f2Face) IsRunning() bool {
	f.mu.Lock()
	defer f.mu.Unlock()
	return f.running
}
func (f *c15f2Face) IsLocal() bool { return true }
func (f *c15f2Face) SetCallback(onPkt func(r enc.ParseReader) error, onError func(err error) error) {
	f.onPkt = onPkt
}
func (f *c15f2Face) Send(pkt enc.Wire) error {
	f.out <- append([]byte(nil), pkt.Join()...)
	return nil
}

// timer running c15f2Speed times faster than the wall clock
const c15f2Speed = 50

type c15f2Timer struct {
	ndn.Timer
	base time.Time
}

func (s *c15f2Timer) Now() time.Time { return s.base.Add(time.Since(s.base) * c15f2Speed) }
func (s *c15f2Timer) Schedule(d time.Duration, f func()) func() error {
	return s.Timer.Schedule(d/c15f2Speed, f)
}
func (s *c15f2Timer) Sleep(d time.Duration) { time.Sleep(d / c15f2Speed) }

func TestC15ObjectWithVersionedNameIsRetrieved(t *testing.T) {
	timer := &c15f2Timer{Timer: basic.NewTimer(), base: time.Now()}
	consFace := &c15f2Face{out: make(chan []byte, 4096)}
	prodFace := &c15f2Face{out: make(chan []byte, 4096)}
	mkEngine := func(f *c15f2Face) *basic.Engine {
		return basic.NewEngine(f, timer, sec.NewSha256IntSigner(timer),
			func(enc.Name, enc.Wire, ndn.Signature) bool { return true })
	}
	consEngine, prodEngine := mkEngine(consFace), mkEngine(prodFace)
	if err := consEngine.Start(); err != nil {
		t.Fatal(err)
	}
	if err := prodEngine.Start(); err != nil {
		t.Fatal(err)
	}
	stop := make(chan struct{})
	defer close(stop)
	relay := func(from, to *c15f2Face) {
		for {
			select {
			case <-stop:
				return
			case p := <-from.out:
				to.onPkt(enc.NewBufferReader(p))
			}
		}
	}
	go relay(consFace, prodFace)
	go relay(prodFace, consFace)

	prod := object.NewClient(prodEngine, object.NewMemoryStore())
	cons := object.NewClient(consEngine, object.NewMemoryStore())
	if err := prod.Start(); err != nil {
		t.Fatal(err)
	}
	defer prod.Stop()
	if err := cons.Start(); err != nil {
		t.Fatal(err)
	}
	defer cons.Stop()

	content := make([]byte, 8000+1)
	rand.New(rand.NewSource(15)).Read(content)

	// control: a name that does not end with a version component
	// subject: the name of version 5 of a document
	for _, ns := range []string{"/c15/doc", "/c15/doc/v=5"} {
		name, err := enc.NameFromStr(ns)
		if err != nil {
			t.Fatal(err)
		}
		pubName, err := prod.Produce(object.ProduceArgs{
			Name:    name,
			Content: enc.Wire{append([]byte(nil), content...)},
		})
		if err != nil {
			t.Fatalf("Produce(%s): %v", ns, err)
		}

		var mu sync.Mutex
		var got []byte
		var gotErr error
		completions := 0
		done := make(chan struct{}, 8)
		cons.Consume(name, func(st *object.ConsumeState) bool {
			mu.Lock()
			defer mu.Unlock()
			if st.IsComplete() {
				completions++
				gotErr = st.Error()
				got = append(got, st.Content()...)
				done <- struct{}{}
			}
			return true
		})
		select {
		case <-done:
		case <-time.After(60 * time.Second):
			t.Fatalf("Consume(%s): the callback never reported completion", ns)
		}
		time.Sleep(100 * time.Millisecond) // a second completion would show up here
		mu.Lock()
		if completions != 1 {
			t.Fatalf("Consume(%s): completion reported %d times, want exactly once", ns, completions)
		}
		if gotErr != nil {
			t.Fatalf("%d bytes were published with Produce(Name: %s), which returned %s and no error; "+
				"Consume(%s) - the same object name - ended with the error %q instead of the content",
				len(content), ns, pubName, ns, gotErr.Error())
		}
		if !bytes.Equal(got, content) {
			t.Fatalf("Consume(%s): %d bytes retrieved, they differ from the %d bytes published", ns, len(got), len(content))
		}
		mu.Unlock()
	}
}
