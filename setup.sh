#!/bin/sh
# Builds the checker binary offline from files on disk only.
set -e
cd "$(dirname "$0")"
export GOFLAGS=-mod=mod GOPROXY=off GOSUMDB=off GOTOOLCHAIN=local
unset GOWORK
if [ -d checker ]; then
  (cd checker && go build -o ../bin/ndndcheck ./cmd/ndndcheck)
fi
