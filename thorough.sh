#!/bin/sh
# Thorough tier for one property: the rules under every build configuration, plus the
# canaries (one-instance-broken variants of /repo that the named rule must report).
# usage: thorough.sh <prop> <repo>
PROP="$1"; REPO="${2:-/repo}"
cd "$(dirname "$0")" || exit 2
VERIF="$(pwd)"
total=0; fired=0; failed=""; skipped=""
if [ -d "canaries/$PROP" ]; then
  for patch in canaries/$PROP/*.patch; do
    [ -f "$patch" ] || continue
    total=$((total+1))
    expect=$(sed -n 's/^# expect: //p' "$patch" | head -1)
    scratch=$(mktemp -d "${TMPDIR:-/tmp}/ndndcanary.XXXXXX")
    mkdir -p "$scratch/repo" "$scratch/verif"
    rsync -a --exclude .git "$REPO/" "$scratch/repo/"
    cp known_findings.json anchors.json fields.json "$scratch/verif/" 2>/dev/null
    if (cd "$scratch/repo" && patch -p1 -s -f < "$VERIF/$patch" >/dev/null 2>&1); then
      out=$(bin/ndndcheck -prop "$PROP" -tier quick -repo "$scratch/repo" -verif "$scratch/verif" 2>&1)
      if printf '%s\n' "$out" | grep -q "^VIOLATION: .*$expect"; then
        fired=$((fired+1))
      elif printf '%s\n' "$out" | grep -q "^UNDECIDED: .*load/type errors"; then
        # the patch applies textually but the variant no longer type-checks (the code
        # around it was repaired since): it cannot be analysed; skipped like a stale patch
        total=$((total-1)); skipped="$skipped $(basename "$patch" .patch)(does-not-build)"
      else
        failed="$failed $(basename "$patch" .patch)(not-reported)"
      fi
    else
      # the anchored code was edited: the variant cannot be built; skipped, not a failure
      total=$((total-1)); skipped="$skipped $(basename "$patch" .patch)"
    fi
    rm -rf "$scratch"
  done
fi
# seeded changes written by independent agents for this property (seeded/<id>/): every
# one that the rules are known to report must still be reported (any rule of the property)
for sd in seeded/$PROP-v*; do
  [ -f "$sd/patch.diff" ] || continue
  if grep -q "still not caught" "$sd/meta.json" 2>/dev/null; then continue; fi
  # a seed that a later repair of /repo made harmless (its demonstration passes with it) is not a violation
  if grep -q '"neutralised": true' "$sd/meta.json" 2>/dev/null; then continue; fi
  total=$((total+1))
  scratch=$(mktemp -d "${TMPDIR:-/tmp}/ndndcanary.XXXXXX")
  mkdir -p "$scratch/repo" "$scratch/verif"
  rsync -a --exclude .git "$REPO/" "$scratch/repo/"
  cp known_findings.json anchors.json fields.json "$scratch/verif/" 2>/dev/null
  if (cd "$scratch/repo" && patch -p1 -s -f < "$VERIF/$sd/patch.diff" >/dev/null 2>&1); then
    out=$(bin/ndndcheck -prop "$PROP" -tier quick -repo "$scratch/repo" -verif "$scratch/verif" 2>&1)
    if printf '%s\n' "$out" | grep -q "^VIOLATION: "; then
      fired=$((fired+1))
    elif printf '%s\n' "$out" | grep -q "^UNDECIDED: .*load/type errors"; then
      total=$((total-1)); skipped="$skipped seed-$(basename "$sd")(does-not-build)"
    else
      failed="$failed seed-$(basename "$sd")(not-reported)"
    fi
  else
    total=$((total-1)); skipped="$skipped seed-$(basename "$sd")"
  fi
  rm -rf "$scratch"
done
exec bin/ndndcheck -prop "$PROP" -tier thorough -repo "$REPO" -verif "$VERIF" \
  -canary-total "$total" -canary-fired "$fired" -canary-failed "$(echo $failed)"
