#!/bin/sh
# Thorough tier for one property: the rules under every build configuration, plus the
# canaries (one-instance-broken variants of /repo that the named rule must report).
# usage: thorough.sh <prop> <repo>
PROP="$1"; REPO="${2:-/repo}"
cd "$(dirname "$0")" || exit 2
VERIF="$(pwd)"
total=0; fired=0; failed=""; skipped=""
if [ -d "canaries/$PROP" ]; then
  for patch in canaries/$PROP/*.patch; do
    [ -f "$patch" ] || continue
    total=$((total+1))
    expect=$(sed -n 's/^# expect: //p' "$patch" | head -1)
    scratch=$(mktemp -d "${TMPDIR:-/tmp}/ndndcanary.XXXXXX")
    mkdir -p "$scratch/repo" "$scratch/verif"
    rsync -a --exclude .git "$REPO/" "$scratch/repo/"
    cp known_findings.json "$scratch/verif/" 2>/dev/null
    if (cd "$scratch/repo" && patch -p1 -s -f < "$VERIF/$patch" >/dev/null 2>&1); then
      out=$(bin/ndndcheck -prop "$PROP" -tier quick -repo "$scratch/repo" -verif "$scratch/verif" 2>&1)
      if printf '%s\n' "$out" | grep -q "^VIOLATION: .*$expect"; then
        fired=$((fired+1))
      else
        failed="$failed $(basename "$patch" .patch)(not-reported)"
      fi
    else
      # the anchored code was edited: the variant cannot be built; skipped, not a failure
      total=$((total-1)); skipped="$skipped $(basename "$patch" .patch)"
    fi
    rm -rf "$scratch"
  done
fi
exec bin/ndndcheck -prop "$PROP" -tier thorough -repo "$REPO" -verif "$VERIF" \
  -canary-total "$total" -canary-fired "$fired" -canary-failed "$(echo $failed)"
