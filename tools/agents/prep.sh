#!/bin/bash
# usage: tools/agents/prep.sh <kind: s4|bh> <property-id>
# Creates a scratch worktree of /repo's HEAD under /tmp and writes the agent's prompt
# (property record only — nothing from /verif's machinery) to /tmp/agents/<kind>_<id>/PROMPT.txt
set -eu
K=$1; ID=$2
case $K in
  s4|s5|s6) T=/verif/tools/agents/seed_round4_prompt_template.txt;;
  s7|s8) T=/verif/tools/agents/seed_round7_prompt_template.txt;;
  bh|bh2|bh3|bh4) T=/verif/tools/agents/bughunt_prompt_template.txt;;
  rf|rf7) T=/verif/tools/agents/refactor_round4_prompt_template.txt;;
  *) echo "kind?"; exit 2;;
esac
B=/tmp/agents/${K}_$ID; WT=$B/wt; OUT=$B/out
mkdir -p $B $OUT
git -C /repo worktree remove --force $WT 2>/dev/null || true
git -C /repo worktree add -q --detach $WT HEAD
python3 - "$T" "$ID" "$WT" "$OUT" > $B/PROMPT.txt <<'PY'
import json,sys
t,id,wt,out=sys.argv[1:5]
rec=None
for l in open('/verif/properties.jsonl'):
    p=json.loads(l)
    if p['id']==id: rec=p
keep={k:rec[k] for k in ('id','title','statement','quantifier','why_tests_cant','anchors') if k in rec}
s=open(t).read().replace('{WT}',wt).replace('{OUT}',out).replace('{ID}',id).replace('{PROP}',json.dumps(keep,indent=1))
print(s)
PY
echo $B/PROMPT.txt
