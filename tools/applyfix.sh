#!/bin/bash
# usage: tools/applyfix.sh <finding-dir with fix.diff, meta.json, demo _test.go> "<fix: commit message>"
# Confirms the demonstration fails on /repo's HEAD, applies the repair, confirms the demonstration passes and the
# unedited suite passes, and commits the repair in /repo as one unguarded "fix:" commit. Leaves /repo clean on failure.
set -u
D=$1; MSG=$2
export GOFLAGS=-mod=mod GOPROXY=off GOSUMDB=off GOTOOLCHAIN=local; unset GOWORK
case "$MSG" in fix:*) ;; *) echo "message must start with fix:"; exit 2;; esac
[ -z "$(git -C /repo status --porcelain)" ] || { echo "/repo not clean"; exit 2; }
eval $(python3 - $D <<'PY'
import json,sys,glob,os
d=sys.argv[1]; m=json.load(open(d+'/meta.json'))
demos=' '.join(os.path.basename(f) for f in glob.glob(d+'/*_test.go'))
print("DEMOS=%r DEST=%r RUN=%r RACEF=%r"%(demos, m.get('demo_pkg_dir','').strip('/'), m.get('demo_run','.'), '-race' if m.get('race') else ''))
PY
)
cd /repo
for f in $DEMOS; do cp $D/$f $DEST/; done
before=$(go test $RACEF -vet=off -count=1 -run "$RUN" ./$DEST/ 2>&1 | tail -15)
echo "$before" | grep -q "^ok" && { echo "DEMO PASSES ON HEAD - not a defect?"; for f in $DEMOS; do rm -f $DEST/$f; done; exit 3; }
echo "--- demo on HEAD fails:"; echo "$before" | grep -E "^\s*(---|panic|.*_test.go)" | head -5
git apply $D/fix.diff || { echo "fix does not apply"; for f in $DEMOS; do rm -f $DEST/$f; done; exit 4; }
after=$(go test $RACEF -vet=off -count=1 -run "$RUN" ./$DEST/ 2>&1 | tail -5)
for f in $DEMOS; do rm -f $DEST/$f; done
echo "$after" | grep -q "^ok" || { echo "DEMO STILL FAILS WITH FIX:"; echo "$after"; git checkout -- .; git clean -fdq; exit 5; }
/verif/tools/repotest.sh /repo || { git checkout -- .; git clean -fdq; exit 6; }
git add -A && git commit -qm "$MSG" && git log --oneline -1
