#!/bin/sh
# usage: tools/fixcanary.sh <prop> <name> <expect-rule-key-prefix> <commit-in-/repo>
# A canary that reverts one "fix:" commit of /repo: the rule that reported the defect must
# report it again on the reverted tree.
P=$1; N=$2; E=$3; C=$4
mkdir -p /verif/canaries/$P
{ echo "# expect: $E"; git -C /repo show -R --format= $C; } > /verif/canaries/$P/$N.patch
echo wrote canaries/$P/$N.patch
