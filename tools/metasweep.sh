#!/bin/bash
# usage: tools/metasweep.sh <mode: swap|ifelse|demorgan|wrap>   (wrap: every function of the anchored packages split into a pure forwarder and a worker)
# Metamorphic self-test of the checker: a scratch copy of /repo with ONE mechanical
# behaviour-preserving rewriting applied at every site (bin/metamorph), re-confirmed to
# build, analysed by all twenty rule tables. Every alarm printed is a false alarm.
# (The copy's tests are run with TESTS=1.) Nothing in /repo is touched; the copy is removed.
set -u
M=$1
export GOFLAGS=-mod=mod GOPROXY=off GOSUMDB=off GOTOOLCHAIN=local; unset GOWORK
cd /verif
[ -x bin/metamorph ] || (cd checker && go build -o ../bin/metamorph ./cmd/metamorph)
W=$(mktemp -d /tmp/metasweep.XXXX); mkdir -p $W/repo $W/verif
rsync -a --exclude .git /repo/ $W/repo/; cp known_findings.json anchors.json fields.json $W/verif/
if [ "$M" = wrap ]; then bin/metamorph -mode wrap -dir $W/repo -pkgs fw,dv,std/engine,std/object,std/encoding,std/ndn/spec_2022,std/security,std/sync; else bin/metamorph -mode $M -dir $W/repo; fi
(cd $W/repo && go build ./... 2>&1 | head -20)
if [ -n "${TESTS:-}" ]; then (cd $W/repo && go test -vet=off -count=1 ./... 2>&1 | grep -v "no test files" | grep -v "^ok" | head -20); fi
GOGC=off GOMEMLIMIT=6GiB ${BIN:-bin/ndndcheck} -sweep all -repo $W/repo -verif $W/verif 2>&1 | grep -E "^(VIOLATION|UNDECIDED): " | cut -c1-${WIDTH:-260}
rm -rf $W
