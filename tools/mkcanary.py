#!/usr/bin/env python3
"""mkcanary.py PROP NAME EXPECT FILE OLD NEW [FILE OLD NEW ...]
Creates canaries/PROP/NAME.patch: /repo with OLD replaced by NEW (exactly once) in FILE.
Verifies the variant still compiles (go build + go vet of the touched packages)."""
import sys, os, subprocess, tempfile, shutil
prop, name, expect = sys.argv[1:4]
trip = sys.argv[4:]
assert len(trip) % 3 == 0 and trip
tmp = tempfile.mkdtemp(prefix='mkcanary.')
try:
    os.makedirs(tmp + '/a'); os.makedirs(tmp + '/b')
    diffs = []
    pk = set()
    files = {}
    for i in range(0, len(trip), 3):
        f, old, new = trip[i:i+3]
        src = files.get(f) or open('/repo/' + f).read()
        nth = int(os.environ.get('MKC_NTH', '0'))
        if nth:
            parts = src.split(old)
            if len(parts) <= nth:
                sys.exit(f'{f}: OLD occurs {len(parts)-1} times, MKC_NTH={nth}')
            files[f] = old.join(parts[:nth]) + new + old.join(parts[nth:])
            continue
        if src.count(old) != 1:
            sys.exit(f'{f}: OLD occurs {src.count(old)} times')
        files[f] = src.replace(old, new)
    for f, new in files.items():
        for side, txt in (('a', open('/repo/' + f).read()), ('b', new)):
            os.makedirs(os.path.dirname(f'{tmp}/{side}/{f}'), exist_ok=True)
            open(f'{tmp}/{side}/{f}', 'w').write(txt)
        r = subprocess.run(['diff', '-u', f'a/{f}', f'b/{f}'], cwd=tmp, capture_output=True, text=True)
        diffs.append(r.stdout)
        pk.add('./' + os.path.dirname(f))
    # compile check in a scratch copy
    scratch = tmp + '/repo'
    subprocess.check_call(['rsync', '-a', '--exclude', '.git', '/repo/', scratch + '/'])
    for f, new in files.items():
        open(f'{scratch}/{f}', 'w').write(new)
    env = dict(os.environ, GOFLAGS='-mod=mod', GOPROXY='off', GOSUMDB='off', GOTOOLCHAIN='local')
    env.pop('GOWORK', None)
    r = subprocess.run(['go', 'build', './...'], cwd=scratch, env=env, capture_output=True, text=True)
    if r.returncode != 0:
        sys.exit('variant does not compile:\n' + r.stderr)
    os.makedirs(f'/verif/canaries/{prop}', exist_ok=True)
    with open(f'/verif/canaries/{prop}/{name}.patch', 'w') as o:
        o.write(f'# expect: {expect}\n')
        o.write(''.join(diffs))
    print('wrote', f'canaries/{prop}/{name}.patch')
finally:
    shutil.rmtree(tmp)
