#!/usr/bin/env python3
"""Regenerates the generated regions of DESIGN.md (between <!-- X:BEGIN --> / <!-- X:END -->):
FIXED (from known_findings.json), SEEDS (from seeded/*/meta.json + seeded/SWEEP.json),
CANARIES (counts per property)."""
import json, glob, os, re, subprocess
os.chdir('/verif')
kf = json.load(open('known_findings.json'))
def region(text, name, body):
    b, e = f'<!-- {name}:BEGIN -->', f'<!-- {name}:END -->'
    assert b in text and e in text, name
    i, j = text.index(b) + len(b), text.index(e)
    return text[:i] + '\n' + body.rstrip('\n') + '\n' + text[j:]
# FIXED
rows = []
for f in kf['fixed']:
    m = re.match(r'fixed: property=(C\d+) (\w+) (.*)', f)
    rows.append((m.group(1), m.group(2), m.group(3)))
rows.sort(key=lambda r: r[0])
fixed = '| property | commit in /repo | what failed |\n|---|---|---|\n' + '\n'.join(f'| {p} | `{c}` | {w} |' for p, c, w in rows)
fixed += f'\n\n{len(rows)} repairs. Known findings (not repaired): ' + '; '.join(f"`{k['key']}`" for k in kf['findings']) + '.'
# SEEDS
sweep = {}
if os.path.exists('seeded/SWEEP.json'):
    for r in json.load(open('seeded/SWEEP.json')):
        sweep[r['seed']] = r
srows = []
tot = first = now = gone = 0
for d in sorted(glob.glob('seeded/C*-v*/'), key=lambda s: (s.split('/')[1].split('-')[0], int(s.split('-v')[1].strip('/')))):
    sid = d.split('/')[1]
    m = json.load(open(d + 'meta.json'))
    prop = sid.split('-')[0]
    hist = m.get('history') or ''
    det = m.get('detected_by', [])
    sw = sweep.get(sid)
    keys = ''
    if sw and sw.get('applies'):
        own = [k.split(' ', 1)[1] for k in sw['reported_by'] if k.startswith(prop + ' ')]
        oth = [k for k in sw['reported_by'] if not k.startswith(prop + ' ')]
        keys = ', '.join(sorted({':'.join(k.split(':')[:2]) for k in own}))
        if oth:
            keys += (' ; also ' if keys else 'only by ') + ', '.join(sorted({k.split(' ')[0] for k in oth}))
    elif sw:
        keys = '(patch no longer applies to the current tree)'
    caught_now = prop in det or (sw and sw.get('applies') and any(k.startswith(prop + ' ') for k in sw['reported_by']))
    missed_first = hist.startswith('missed') or 'NOT detected' in json.dumps(m)
    tot += 1
    if not missed_first and caught_now: first += 1
    if caught_now: now += 1
    status = 'caught at first run' if (caught_now and not missed_first) else ('caught after strengthening' if caught_now else '**not caught**')
    if sw and not sw.get('applies') and not caught_now:
        status = 'no longer applies (the code it changes was repaired since)'
        gone += 1
        now += 1
    if m.get('neutralised'):
        status = 'made harmless by a later repair (its demonstration passes with the change)'
        if not caught_now:
            now += 1
    summ = (m.get('summary') or '').replace('|', '/').replace('\n', ' ')
    if len(summ) > 150: summ = summ[:147] + '…'
    srows.append(f'| {sid} | {summ} | {status} | {keys} |')
seeds = '| seed | change (agent\'s summary) | outcome | reporting rules (own property) |\n|---|---|---|---|\n' + '\n'.join(srows)
seeds += f'\n\n{tot} seeded changes; {first} reported by their own property\'s check at the first run, {now-gone} after strengthening, {gone} no longer apply to the repaired tree and were not reported by their own property when they last did, {tot-now} not caught.'
# CANARIES
crow = []
ctot = 0
for p in sorted(os.listdir('canaries')):
    n = len(glob.glob(f'canaries/{p}/*.patch')); ctot += n
    crow.append(f'{p}: {n}')
can = f'{ctot} canary patches — ' + ', '.join(crow) + '.'
# REFS
rrows = []
nref = nfirst = nnow = 0
for d in sorted(glob.glob('refactorings/C*-r*/'), key=lambda s: (s.split('/')[1].split('-')[0], int(s.split('-r')[1].strip('/')))):
    m = json.load(open(d + 'meta.json'))
    rid = m.get('ref_id', d.split('/')[1])
    fa = m.get('alarms_first_run', m.get('alarms', []))
    na = m.get('alarms', [])
    nref += 1
    if fa: nfirst += 1
    if na: nnow += 1
    summ = (m.get('summary') or '').replace('|', '/').replace('\n', ' ')
    if len(summ) > 140: summ = summ[:137] + '…'
    def short(a):
        return ', '.join(sorted({' '.join(x.split(' ')[1:3]).split(':')[0] + ':' + (' '.join(x.split(' ')[1:3]).split(':') + [''])[1] for x in a})) if a else '—'
    rrows.append(f"| {rid} | {m.get('kind','')} | {summ} | {short(fa)} | {'**' + short(na) + '**' if na else 'silent'} |")
refs = '| id | kind | change (agent\'s summary) | alarms at first run (all false) | now |\n|---|---|---|---|---|\n' + '\n'.join(rrows)
refs += f'\n\n{nref} behaviour-preserving refactorings; {nfirst} raised at least one alarm at the first run; {nnow} still do.'
t = open('DESIGN.md').read()
if '<!-- REFS:BEGIN -->' in t:
    t = region(t, 'REFS', refs)
    open('DESIGN.md', 'w').write(t)
    t = open('DESIGN.md').read()
t = region(t, 'FIXED', fixed); t = region(t, 'SEEDS', seeds); t = region(t, 'CANARIES', can)
open('DESIGN.md', 'w').write(t)
print(f'fixed {len(rows)}, seeds {tot} (first {first}, now {now}), canaries {ctot}')
