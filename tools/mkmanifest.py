#!/usr/bin/env python3
"""Regenerates /verif/MANIFEST.json from the table below. The list of implemented
properties is taken from `bin/ndndcheck -list`."""
import json, subprocess, os
os.chdir('/verif')
impl = subprocess.run(['bin/ndndcheck', '-list'], capture_output=True, text=True).stdout.split()
props = [json.loads(l) for l in open('properties.jsonl')]
CLAIMS = json.load(open('tools/claims.json'))
checks, na = [], []
for p in props:
    pid = p['id']
    cl = CLAIMS.get(pid, {})
    if pid in impl and 'text' in cl:
        checks.append({
            "property_id": pid,
            "quick_cmd": f"./check {pid} quick",
            "thorough_cmd": f"./check {pid} thorough",
            "evidence_file": f"/verif/evidence/{pid}.json",
            "replay_cmd_template": f"./check {pid} quick   # re-analyses /repo; the obligation is named in {{path}}",
            "engine": "ndndcheck",
            "level_claimed": {"category": "other", "text": cl['text'], "design_ref": f"DESIGN.md §3 {pid}"},
            "level_note": cl.get('note', "Trusted base: go/packages + go/types + go/ssa (x/tools v0.29.0) as the model of the compiled program; the rule table in checker/props; path-insensitive CFG reasoning (infeasible paths may be considered); value identity by provenance (loads of one field of one object are identified)."),
            "technique": cl['technique'],
        })
    else:
        na.append({"property_id": pid, "reason": cl.get('na', "check not yet implemented in this commit (planned rules in DESIGN.md §3)")})
m = {
    "version": 1,
    "setup_cmd": "./setup.sh",
    "hooks": {"guard": "verif", "enable": "none: the checks analyse /repo's source and need no hooks or instrumentation",
              "baseline_off_cmd": "cd /repo && go build ./... && go test -vet=off -count=1 ./...",
              "source_commits": [], "add_only": True},
    "engines": [{"name": "ndndcheck", "path": "checker/", "serves_properties": [c['property_id'] for c in checks],
                 "kind_free_text": "repository-specific static analyser (Go; go/packages + go/types + go/ssa): gate/dominance-with-polarity, must-follow pairing, provenance slices, table agreement, lockset and sibling-consistency rules over resolved program objects"}],
    "checks": checks,
    "not_applicable": na,
    "notes": "All claims are level 'other': each check decides structural necessary conditions of its property on every path of the current source, not the behaviour. Genuine defects found by the rules are repaired by 'fix:' commits in /repo or listed in known_findings.json (see DESIGN.md §5).",
}
json.dump(m, open('MANIFEST.json', 'w'), indent=1)
print('checks:', [c['property_id'] for c in checks]); print('n/a:', [n['property_id'] for n in na])
