#!/usr/bin/env python3
"""recfixed.py PROP COMMIT "what failed" — appends a 'fixed:' record to known_findings.json"""
import json,sys
p,c,w=sys.argv[1:4]
f='/verif/known_findings.json'; k=json.load(open(f))
line=f"fixed: property={p} {c} {w}"
if not any(c in x for x in k['fixed']): k['fixed'].append(line)
json.dump(k,open(f,'w'),indent=1,ensure_ascii=False); open(f,'a').write('\n')
print(line)
