#!/bin/bash
# usage: tools/refadopt.sh <property-id> <agent-out-dir>   (layout: <out>/rN/{patch.diff,meta.json})
# Runs tools/refrun.sh for every refactoring of one agent under the next free ids.
set -u
P=$1; OUT=$2
cd /verif
for d in $(ls -d $OUT/r* 2>/dev/null | sort); do
  [ -f $d/patch.diff ] || continue
  n=$(ls refactorings | grep -E "^$P-r[0-9]+$" | sed -E 's/.*-r//' | sort -n | tail -1); n=$(( ${n:-0} + 1 ))
  tools/refrun.sh $P-r$n $d
  python3 - $P-r$n <<'PY'
import json,sys
f='/verif/refactorings/%s/meta.json'%sys.argv[1]
m=json.load(open(f)); m['origin']=__import__('os').environ.get('ORIGIN','round 4: secondary code'); json.dump(m,open(f,'w'),indent=1)
PY
done
