#!/bin/bash
# usage: tools/refrun.sh <ref-id> <dir-with-patch.diff-and-meta.json>
# A behaviour-preserving refactoring written by an independent agent: applies it to a
# scratch copy of /repo (nothing in /repo is touched), re-confirms that it builds and that
# the unedited test suite passes, runs every property's quick check on the copy and
# records every alarm (each one is a false alarm of the checker unless the refactoring
# turns out not to preserve behaviour). Stores the result under /verif/refactorings/<id>/.
set -u
ID=$1; DIR=$2
export GOFLAGS=-mod=mod GOPROXY=off GOSUMDB=off GOTOOLCHAIN=local; unset GOWORK
cd /verif
W=$(mktemp -d /tmp/refrun.XXXX)
mkdir -p $W/repo $W/verif; rsync -a --exclude .git /repo/ $W/repo/; cp known_findings.json anchors.json fields.json $W/verif/
if ! (cd $W/repo && patch -p1 -s --no-backup-if-mismatch < "$DIR/patch.diff"); then echo "$ID: PATCH DOES NOT APPLY"; rm -rf $W; exit 3; fi
B=ok; (cd $W/repo && go build ./... >/dev/null 2>&1) || B=FAIL
T=$(cd $W/repo && go test -vet=off -count=1 ./... 2>&1 | grep -v "no test files" | grep -vc "^ok")
alarms=$(GOGC=off GOMEMLIMIT=4GiB bin/ndndcheck -sweep all -repo $W/repo -verif $W/verif 2>&1 | grep -E "^(VIOLATION|UNDECIDED): " | sed -E 's/^(VIOLATION|UNDECIDED): (C[0-9]+|ALL) ([^ ]+) .*/\1 \2 \3/' | sort -u | tr '\n' ';')
rm -rf $W
mkdir -p refactorings/$ID; cp "$DIR/patch.diff" refactorings/$ID/
python3 - "$ID" "$DIR" "$B" "$T" "$alarms" <<'PY'
import json,sys
id,d,b,t,al=sys.argv[1:6]
try: m=json.load(open(d+'/meta.json'))
except Exception: m={}
m['ref_id']=id; m['reconfirmed']={'build':b,'failing_test_lines':int(t)}
m['alarms']=[a for a in al.split(';') if a]
m.setdefault('alarms_first_run', m['alarms'])
json.dump(m,open(f'/verif/refactorings/{id}/meta.json','w'),indent=1)
print(id, 'build',b,'tests_nonok',t,'alarms:',m['alarms'] or 'none')
PY
