#!/bin/bash
# usage: tools/refsweep.sh [jobs] [id-glob]
# Re-runs every stored behaviour-preserving refactoring (refactorings/<id>/patch.diff)
# against the current checker on scratch copies of /repo and prints the alarms: each is a
# false alarm. Updates refactorings/<id>/meta.json (.alarms) and exits 1 if any remain.
set -u
J=${1:-6}; GLOB=${2:-*}
cd /verif
export GOFLAGS=-mod=mod GOPROXY=off GOSUMDB=off GOTOOLCHAIN=local; unset GOWORK
one() {
  id=$1
  W=$(mktemp -d /tmp/refsweep.XXXX)
  mkdir -p $W/repo $W/verif; rsync -a --exclude .git /repo/ $W/repo/; cp /verif/known_findings.json /verif/anchors.json /verif/fields.json $W/verif/
  if ! (cd $W/repo && patch -p1 -s --no-backup-if-mismatch < /verif/refactorings/$id/patch.diff >/dev/null 2>&1); then echo "$id: does not apply"; rm -rf $W; python3 -c "
import json,sys
p='/verif/refactorings/$id/meta.json'; m=json.load(open(p)); m['alarms']=[]; m['applies_to_current_tree']=False; json.dump(m,open(p,'w'),indent=1)"; return; fi
  if ! (cd $W/repo && go build ./... >/dev/null 2>&1); then echo "$id: does not build on the current tree"; rm -rf $W; return; fi
  alarms=$(GOGC=off GOMEMLIMIT=4GiB bin/ndndcheck -sweep ${PROPS:-all} -repo $W/repo -verif $W/verif 2>&1 | grep -E "^(VIOLATION|UNDECIDED): " | sed -E 's/^(VIOLATION|UNDECIDED): (C[0-9]+|ALL) ([^ ]+) .*/\1 \2 \3/' | sort -u | tr '\n' ';')
  rm -rf $W
  python3 - "$id" "$alarms" <<'PY'
import json,sys
id,al=sys.argv[1:3]
p=f'/verif/refactorings/{id}/meta.json'; m=json.load(open(p)); m['alarms']=[a for a in al.split(';') if a]; json.dump(m,open(p,'w'),indent=1)
print(id, 'alarms:', m['alarms'] or 'none')
PY
}
export -f one
ls refactorings | grep -E "^C[0-9]+-r[0-9]+$" | grep -E "$(echo "$GLOB" | sed 's/\*/.*/g')" | xargs -P $J -I{} bash -c "one {}" | sort
n=$(python3 -c "
import json,glob
print(sum(1 for f in glob.glob('/verif/refactorings/*/meta.json') if json.load(open(f)).get('alarms')))")
echo "$n refactoring(s) with alarms"
[ "$n" = 0 ]
