#!/bin/sh
# Baseline build + tests of /repo (or $1). Prints BASELINE-OK or BASELINE-FAIL.
cd "${1:-/repo}" || exit 2
export GOFLAGS=-mod=mod GOPROXY=off GOSUMDB=off GOTOOLCHAIN=local; unset GOWORK
if go build ./... && go test -vet=off -count=1 ./... > /tmp/repotest.$$ 2>&1; then
  n=$(grep -c '^ok' /tmp/repotest.$$); echo "BASELINE-OK ($n packages ok)"; rm -f /tmp/repotest.$$; exit 0
else
  grep -v 'no test files' /tmp/repotest.$$ | grep -E '^(--- FAIL|FAIL|ok|panic)' | head -30; echo BASELINE-FAIL; rm -f /tmp/repotest.$$; exit 1
fi
