#!/bin/sh
# runs every implemented check (quick) on /repo; prints one line per property
cd /verif; rc=0
for p in $(bin/ndndcheck -list); do ./check $p ${1:-quick} | tail -1 || rc=1; done
exit $rc
