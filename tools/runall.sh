#!/bin/sh
# runs every implemented check (quick) on /repo; prints one line per property
cd /verif; rc=0
for p in $(bin/ndndcheck -list); do ./check $p ${1:-quick} | grep -E "UNDECIDED|VIOLATION:|(quick|thorough):" | cut -c1-500 || rc=1; done
exit $rc
