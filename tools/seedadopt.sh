#!/bin/bash
# usage: tools/seedadopt.sh <property-id> <agent-out-dir>     (round 4 layout: <out>/vN/{patch.diff,meta.json,<demo>_test.go})
# Confirms and stores every variant of one agent through tools/seedrun.sh under the next
# free seed ids of the property.
set -u
P=$1; OUT=$2
cd /verif
for d in $(ls -d $OUT/v* 2>/dev/null | sort); do
  [ -f $d/patch.diff ] || continue
  if [ -n "${ONLY:-}" ] && ! echo " $ONLY " | grep -q " $(basename $d) "; then continue; fi
  n=$(ls seeded | grep -E "^$P-v[0-9]+$" | sed -E 's/.*-v//' | sort -n | tail -1); n=$(( ${n:-0} + 1 ))
  id=$P-v$n
  eval $(python3 - $d <<'PY'
import json,sys,glob,os
d=sys.argv[1]
m=json.load(open(d+'/meta.json'))
demo=m.get('demo_file') or os.path.basename(sorted(glob.glob(d+'/*_test.go'))[0])
print("DEMO=%r DEST=%r RUN=%r RACEF=%r"%(os.path.basename(demo), m.get('demo_pkg_dir','').strip('/'), m.get('demo_run','.'), '1' if m.get('race') else ''))
PY
)
  echo "=== $id  ($d)  demo=$DEMO dest=$DEST run=$RUN race=$RACEF"
  RACE=$RACEF tools/seedrun.sh $id $d "$DEMO" "$DEST" "$RUN" 2>&1 | tail -12
  python3 - $id <<'PY'
import json,sys
f='/verif/seeded/%s/meta.json'%sys.argv[1]
m=json.load(open(f)); m['round']=int(__import__('os').environ.get('ROUND','4')); json.dump(m,open(f,'w'),indent=1)
PY
done
