#!/bin/bash
# usage: tools/seedone.sh <seed-id> [props...]   — applies one stored seed to a scratch copy of /repo and runs
# the named properties (default: the seed's own) in single-property mode and in sweep mode; removes the copy.
id=$1; shift; props=${*:-${id%%-*}}
d=$(mktemp -d /tmp/seedone.XXXX); mkdir -p $d/repo $d/verif
rsync -a --exclude .git /repo/ $d/repo/
cp /verif/known_findings.json /verif/anchors.json /verif/fields.json $d/verif/
(cd $d/repo && patch -p1 -s --no-backup-if-mismatch < /verif/seeded/$id/patch.diff) || { echo "does not apply"; rm -rf $d; exit 3; }
for p in $props; do
  echo "--- single $p"; GOGC=off ${BIN:-bin/ndndcheck} -prop $p -tier quick -repo $d/repo -verif $d/verif 2>&1 | grep -E "^(VIOLATION|UNDECIDED): " | cut -c1-${W:-300}
done
echo "--- sweep"; GOGC=off ${BIN:-bin/ndndcheck} -sweep all -repo $d/repo -verif $d/verif 2>&1 | grep -E "^(VIOLATION|UNDECIDED): " | cut -c1-${W:-300}
rm -rf $d
