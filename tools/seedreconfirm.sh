#!/bin/bash
# usage: tools/seedreconfirm.sh <seed-id>...   — does the stored demonstration still fail with the stored patch on today's /repo?
# (a later repair can make a seeded change harmless: such a seed is no longer a violation and must not be reported)
export GOFLAGS=-mod=mod GOPROXY=off GOSUMDB=off GOTOOLCHAIN=local; unset GOWORK
for id in "$@"; do
  WT=/tmp/reconf_$id
  git -C /repo worktree remove --force $WT 2>/dev/null
  git -C /repo worktree add -q --detach $WT HEAD || exit 2
  eval $(python3 - $id <<'PY'
import json,sys,glob,os
d='/verif/seeded/'+sys.argv[1]
m=json.load(open(d+'/meta.json')); c=m.get('confirmed',{})
demo=[os.path.basename(f) for f in glob.glob(d+'/*_test.go')]
print("DEMOS=%r DEST=%r RUN=%r RACEF=%r"%(' '.join(demo), c.get('demo_location') or m.get('demo_pkg_dir',''), c.get('demo_run') or m.get('demo_run','.'), '-race' if m.get('race') else ''))
PY
)
  cd $WT
  if ! patch -p1 -s --no-backup-if-mismatch < /verif/seeded/$id/patch.diff >/dev/null 2>&1; then echo "$id: patch does not apply"; cd /verif; git -C /repo worktree remove --force $WT; continue; fi
  for f in $DEMOS; do cp /verif/seeded/$id/$f $DEST/; done
  out=$(go test $RACEF -vet=off -count=1 -run "$RUN" ./$DEST/ 2>&1 | tail -4)
  if echo "$out" | grep -q "^ok"; then echo "$id: demonstration PASSES with the change on today's tree (neutralised)"; 
  elif echo "$out" | grep -q "FAIL"; then echo "$id: demonstration still fails"; else echo "$id: ??? $out"; fi
  cd /verif; git -C /repo worktree remove --force $WT
done
