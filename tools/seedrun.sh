#!/bin/bash
# usage: tools/seedrun.sh <seed-id> <dir-with-patch.diff> <demo_file> <dest_pkg_dir_rel> <go-test -run regex>
# 1. confirms the seed in a scratch worktree (builds, baseline passes, demo fails with / passes without)
# 2. runs every implemented check against that worktree (patch applied); /repo is not touched
# 3. stores it under /verif/seeded/<seed-id>/
set -u
ID=$1; DIR=$2; DEMO=$3; DEST=$4; RUN=$5
export GOFLAGS=-mod=mod GOPROXY=off GOSUMDB=off GOTOOLCHAIN=local; unset GOWORK
WT=/tmp/confirm_$ID
git -C /repo worktree remove --force $WT 2>/dev/null
git -C /repo worktree add -q --detach $WT HEAD || exit 2
res="{}"
cd $WT
cp "$DIR/$DEMO" "$DEST/" || { echo "cannot copy demo"; }
for x in ${EXTRA:-}; do cp "$DIR/$x" "$DEST/"; done
without=$(go test ${RACE:+-race} -vet=off -count=1 -run "$RUN" ./$DEST/ 2>&1 | tail -3)
echo "$without" | grep -q "^ok" && W=pass || W=FAIL
git apply "$DIR/patch.diff" || { echo "PATCH DOES NOT APPLY"; git -C /repo worktree remove --force $WT; exit 3; }
go build ./... 2>&1 | tail -3; B=$?
with=$(go test ${RACE:+-race} -vet=off -count=1 -run "$RUN" ./$DEST/ 2>&1 | tail -5)
echo "$with" | grep -q "FAIL" && X=fail || X=PASS
rm -f "$DEST/$DEMO"
for x in ${EXTRA:-}; do rm -f "$DEST/$x"; done
base=$(go test -vet=off -count=1 ./... 2>&1 | grep -v "no test files" | grep -vc "^ok")
cd /verif
echo "confirm: demo without=$W with=$X baseline_nonok_lines=$base"
# detection: every implemented check (quick) against the worktree that carries the change
# (same content as /repo with the patch applied; /repo itself stays untouched, so several
# seeds can be confirmed at the same time)
SV=$(mktemp -d /tmp/seedverif.XXXX); cp /verif/known_findings.json /verif/anchors.json /verif/fields.json $SV/
out=$(GOGC=off GOMEMLIMIT=4GiB bin/ndndcheck -sweep all -repo $WT -verif $SV 2>&1 | grep -E "^(VIOLATION|UNDECIDED): ")
echo "$out" | cut -c1-260 | head -12
det=$(echo "$out" | sed -nE 's/^(VIOLATION|UNDECIDED): (C[0-9]+|ALL) .*/\2/p' | sort -u | tr '\n' ' ')
[ -n "$det" ] && det=" $det"
rm -rf $SV
git -C /repo worktree remove --force $WT
echo "detected_by:${det:- NONE}"
mkdir -p seeded/$ID
cp "$DIR/patch.diff" "$DIR/$DEMO" seeded/$ID/
for x in ${EXTRA:-}; do cp "$DIR/$x" seeded/$ID/; done
python3 - "$ID" "$DIR" "$W" "$X" "$base" "$det" "$DEST" "$RUN" <<'PY'
import json,sys
id,d,w,x,base,det,dest,run=sys.argv[1:9]
try: m=json.load(open(d+'/meta.json'))
except Exception: m={}
m['seed_id']=id
m['confirmed']={'demo_without_change':w,'demo_with_change':x,'baseline_failing_lines_with_change':int(base),'demo_location':dest,'demo_run':run,
  'what_i_ran':'scratch git worktree of /repo HEAD: demo without patch; git apply patch; go build ./...; demo with patch; go test -vet=off -count=1 ./...; then every check run (quick) against that worktree with the patch applied; worktree removed'}
m['detected_by']=det.split()
json.dump(m,open(f'/verif/seeded/{id}/meta.json','w'),indent=1)
PY
