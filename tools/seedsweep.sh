#!/bin/bash
# usage: tools/seedsweep.sh [jobs] [id-regex]   (with a regex only those seeds are re-run and merged into SWEEP.json)
# Re-checks every seeded change against the current checker: copies /repo to a scratch
# directory per seed, applies seeded/<id>/patch.diff there, runs every property (quick) on
# the copy, and records which rule keys report it. Writes seeded/SWEEP.json.
# Nothing in /repo is touched. Scratch copies live under /tmp/seedsweep.* and are removed.
set -u
J=${1:-6}; RX=${2:-.}
cd /verif
export GOFLAGS=-mod=mod GOPROXY=off GOSUMDB=off GOTOOLCHAIN=local; unset GOWORK
OUT=$(mktemp -d /tmp/seedsweep.XXXX)
one() {
  id=$1; OUT=$2
  d=$OUT/$id; mkdir -p $d/repo $d/verif
  rsync -a --exclude .git /repo/ $d/repo/
  cp /verif/known_findings.json /verif/anchors.json /verif/fields.json $d/verif/
  if ! (cd $d/repo && patch -p1 -s --no-backup-if-mismatch < /verif/seeded/$id/patch.diff >/dev/null 2>&1); then
    echo "{\"seed\":\"$id\",\"applies\":false}" > $OUT/$id.json; rm -rf $d; return
  fi
  if ! (cd $d/repo && go build ./... >/dev/null 2>&1); then
    echo "{\"seed\":\"$id\",\"applies\":false,\"note\":\"does not build on the current tree\"}" > $OUT/$id.json; rm -rf $d; return
  fi
  keys=$(GOGC=off GOMEMLIMIT=4GiB bin/ndndcheck -sweep all -repo $d/repo -verif $d/verif 2>&1 | grep -E "^(VIOLATION|UNDECIDED): " | sed -E 's/^(VIOLATION|UNDECIDED): (C[0-9]+|ALL) ([^ ]+) .*/\2 \3/' | sort -u | tr '\n' ';')
  python3 - "$id" "$keys" > $OUT/$id.json <<'PY'
import json,sys
print(json.dumps({"seed":sys.argv[1],"applies":True,"reported_by":[k for k in sys.argv[2].split(';') if k]}))
PY
  rm -rf $d
}
export -f one
ls seeded | grep -E '^C[0-9]+-v[0-9]+$' | grep -E "$RX" | xargs -P $J -I{} bash -c "one {} $OUT"
python3 - $OUT <<'PY'
import json,sys,glob,os
res=[json.load(open(f)) for f in sorted(glob.glob(sys.argv[1]+'/*.json'))]
try:
    old=json.load(open('/verif/seeded/SWEEP.json'))
except Exception:
    old=[]
new={r['seed'] for r in res}
res=sorted([r for r in old if r['seed'] not in new and os.path.isdir('/verif/seeded/'+r['seed'])]+res, key=lambda r:(r['seed'][:3], int(r['seed'].split('-v')[1])))
json.dump(res,open('/verif/seeded/SWEEP.json','w'),indent=1)
n=len(res); ap=[r for r in res if r['applies']]; det=[r for r in ap if any(k.startswith(r['seed'][:3]+' ') for k in r['reported_by'])]
print(f"{n} seeds, {len(ap)} apply to the current tree, {len(det)} reported by their own property's check")
for r in ap:
    if r not in det: print("NOT REPORTED:", r['seed'], r['reported_by'])
for r in res:
    if not r['applies']: print("does not apply:", r['seed'])
PY
rm -rf $OUT
