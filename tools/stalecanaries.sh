#!/bin/sh
# usage: tools/stalecanaries.sh — lists canaries (canaries/*/*.patch) that no longer apply to /repo
cd /verif
s=$(mktemp -d /tmp/cs.XXXXXX); rsync -a --exclude .git /repo/ $s/base/; n=0
for pa in canaries/C*/*.patch; do rm -rf $s/w; cp -r $s/base $s/w; if ! (cd $s/w && patch -p1 -s -f < /verif/$pa >/dev/null 2>&1); then echo "STALE $pa"; n=$((n+1)); fi; done
echo "stale=$n"; rm -rf $s
