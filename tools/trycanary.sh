#!/bin/sh
# usage: tools/trycanary.sh PROP patchfile  — run the check on a scratch copy with the patch applied
PROP=$1; PATCH=$(readlink -f "$2")
s=$(mktemp -d /tmp/trycanary.XXXXXX); mkdir -p $s/repo $s/verif
rsync -a --exclude .git /repo/ $s/repo/
cp /verif/known_findings.json /verif/anchors.json /verif/fields.json $s/verif/
(cd $s/repo && patch -p1 -s -f < "$PATCH") || echo "PATCH FAILED"
/verif/bin/ndndcheck -prop $PROP -tier quick -repo $s/repo -verif $s/verif
rm -rf $s
